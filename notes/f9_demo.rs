// Demonstration of F9 (C20): place as tests/verif_f9.rs in the egglog root crate.
// `cargo test --offline --test verif_f9 -- --nocapture` prints the order in which Read::table_sizes() lists the
// tables. Run it in two processes: before the fix the order differs from run to run (the registry is a
// hashbrown::HashMap with the default, randomly seeded hasher); after the fix it is sorted by name.
use egglog::*;

#[test]
fn f9_table_sizes_order_is_reproducible() {
    let mut e = EGraph::default();
    let mut prog = String::new();
    for i in 0..12 {
        prog.push_str(&format!("(relation R{i} (i64))\n(R{i} {i})\n"));
    }
    e.parse_and_run_program(None, &prog).unwrap();
    let names: Vec<String> = e.read(|rs| rs.table_sizes().into_iter().map(|(n, _)| n.to_string()).collect());
    let mut sorted = names.clone();
    sorted.sort();
    println!("ORDER {}", names.join(","));
    assert_eq!(names, sorted, "table_sizes() order depends on the hash seed");
}
