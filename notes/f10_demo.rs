use egglog_concurrency::ConcurrentVec;

#[test]
fn push_then_resize_with_initialises_every_new_slot() {
    let v = ConcurrentVec::<usize>::with_capacity(0);
    for i in 0..5 {
        v.push(i + 1);
    }
    v.resize_with(8, || 99);
    let got: Vec<usize> = v.read().iter().copied().collect();
    assert_eq!(got, vec![1, 2, 3, 4, 5, 99, 99, 99]);
}
