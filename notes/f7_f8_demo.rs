// Demonstration of F7 / F8 (C15): place as tests/verif_f7_f8.rs in the egglog root crate and run
// `cargo test --offline --test verif_f7_f8`. Fails on the tree before commits c0d74de / 288669f, passes after.
use egglog::ast::Parser;

fn print_program(src: &str) -> String {
    let mut p = Parser::default();
    let cmds = p.get_program_from_string(None, src).unwrap();
    cmds.iter().map(|c| c.to_string()).collect::<Vec<_>>().join("\n")
}

#[test]
fn f7_variant_unextractable_survives_printing() {
    let printed = print_program("(datatype Math (Num i64 :unextractable) (Add Math Math))");
    assert!(printed.contains(":unextractable"), "printed program lost :unextractable: {printed}");
}

#[test]
fn f8_rewrite_name_survives_printing() {
    let printed = print_program("(datatype Math (Num i64) (Add Math Math))\n(rewrite (Add a b) (Add b a) :name \"comm\")");
    assert!(printed.contains(":name"), "printed program lost the rewrite's :name: {printed}");
    let printed = print_program("(datatype Math (Num i64) (Add Math Math))\n(birewrite (Add a b) (Add b a) :name \"comm2\")");
    assert!(printed.contains(":name"), "printed program lost the birewrite's :name: {printed}");
}
