use egglog::scheduler::{Matches, Scheduler};
use egglog::*;

#[derive(Clone)]
struct All;
impl Scheduler for All {
    fn filter_matches(&mut self, _rule: &str, _ruleset: &str, matches: &mut Matches) -> bool {
        matches.choose_all();
        true
    }
}

// F6: after push; step; pop the scheduler never sees a match again.
#[test]
fn f6_scheduler_after_push_pop() {
    let mut e = EGraph::default();
    let sid = e.add_scheduler(Box::new(All));
    e.parse_and_run_program(
        None,
        "(relation R (i64)) (relation S (i64)) (ruleset rs) (rule ((R x)) ((S x)) :ruleset rs) (R 1)",
    )
    .unwrap();
    // first step builds the scheduler's rule info
    e.step_rules_with_scheduler(sid, "rs").unwrap();
    e.parse_and_run_program(None, "(check (S 1))").unwrap();
    e.parse_and_run_program(None, "(push)").unwrap();
    e.parse_and_run_program(None, "(R 2)").unwrap();
    e.step_rules_with_scheduler(sid, "rs").unwrap();
    e.parse_and_run_program(None, "(pop)").unwrap();
    e.parse_and_run_program(None, "(R 3)").unwrap();
    e.step_rules_with_scheduler(sid, "rs").unwrap();
    e.step_rules_with_scheduler(sid, "rs").unwrap();
    // with snapshot isolation this must hold exactly as if push..pop never happened
    e.parse_and_run_program(None, "(check (S 3))").unwrap();
}

// F5: a clone that declares a same-named table redirects the original's name-indexed API.
#[test]
fn f5_clone_shares_action_registry() {
    let mut a = EGraph::default();
    a.parse_and_run_program(None, "(function f (i64) i64 :no-merge) (set (f 1) 10)").unwrap();
    let mut b = a.clone();
    a.parse_and_run_program(None, "(function g (i64) i64 :no-merge) (set (g 1) 5)").unwrap();
    let mut n = 0;
    a.function_entries("g", |_| n += 1).unwrap();
    assert_eq!(n, 1);
    // the clone declares its own g afterwards
    b.parse_and_run_program(None, "(function g (i64) i64 :no-merge) (set (g 1) 9)").unwrap();
    // the original must be unaffected by what its clone does later
    let mut n = 0;
    let r = a.function_entries("g", |_| n += 1);
    assert!(r.is_ok(), "original's name-indexed access to g broke after the clone declared g: {:?}", r.err().map(|e| e.to_string()));
    assert_eq!(n, 1);
}
