//! Demonstration for seeded defect C04b.
//!
//! Property C04: after every command, every e-class id stored inside any
//! container is the canonical representative of its class, and everything the
//! engine has recorded as equal is visible to the very next query.
//!
//! Place this file at `tests/seed_C04.rs` and run
//! `cargo test --offline --test seed_C04`.

use egglog::EGraph;
use egglog::sort::VecContainer;

/// Runs the three-phase history and reports the first violation of C04.
fn run_history(threads: usize) -> Result<(), String> {
    let mut egraph = EGraph::default().with_num_threads(threads);

    // Phase A: a *small* container environment (more than 8 containers, far
    // fewer than 1000). One union rewrites the contents of the two-element
    // vector in place: (vec-of N10 N11) becomes (vec-of N5 N11), a container
    // value that did not exist before.
    let mut phase_a = String::from(
        "(sort Math)
         (constructor Num (i64) Math)
         (sort MathVec (Vec Math))
         (constructor Holds (MathVec) Math)\n",
    );
    for i in 0..20 {
        phase_a.push_str(&format!("(Num {i})\n"));
    }
    phase_a.push_str("(Holds (vec-of (Num 10) (Num 11)))\n");
    for i in (0..20).filter(|i| *i != 10) {
        phase_a.push_str(&format!("(Holds (vec-of (Num {i})))\n"));
    }
    phase_a.push_str("(union (Num 10) (Num 5))\n");
    phase_a.push_str("(check (= (Holds (vec-of (Num 10) (Num 11))) (Holds (vec-of (Num 5) (Num 11)))))\n");
    egraph
        .parse_and_run_program(None, &phase_a)
        .map_err(|e| format!("phase A failed: {e}"))?;

    // Phase B: grow the environment past 1000 containers. No unions.
    let mut phase_b = String::new();
    for i in 100..1300 {
        phase_b.push_str(&format!("(Holds (vec-of (Num {i})))\n"));
    }
    egraph
        .parse_and_run_program(None, &phase_b)
        .map_err(|e| format!("phase B failed: {e}"))?;

    // Phase C: a single union that displaces N5, which now lives inside the
    // rewritten two-element vector.
    egraph
        .parse_and_run_program(None, "(union (Num 5) (Num 2))")
        .map_err(|e| format!("phase C failed: {e}"))?;

    // Observation 1 (read API): every id stored in a container reachable from
    // a table row must be canonical right after the command.
    let math = egraph.get_sort_by_name("Math").unwrap().clone();
    let mut vec_ids = Vec::new();
    egraph
        .constructor_enodes("Holds", |enode| vec_ids.push(enode.children[0]))
        .unwrap();
    assert!(vec_ids.len() > 1000);
    for vec_id in vec_ids {
        let elems = egraph
            .value_to_container::<VecContainer>(vec_id)
            .ok_or_else(|| format!("row of Holds mentions unknown container {vec_id:?}"))?
            .data
            .clone();
        for elem in elems {
            let canon = egraph.class_id_to_value(&egraph.value_to_class_id(&math, elem));
            if canon != elem {
                return Err(format!(
                    "container {vec_id:?} = {:?} still stores non-canonical id {elem:?} (canonical: {canon:?})",
                    egraph.value_to_container::<VecContainer>(vec_id).unwrap().data
                ));
            }
        }
    }

    // Observation 2 (next query): the recorded equalities are visible.
    egraph
        .parse_and_run_program(
            None,
            "(check (= (Holds (vec-of (Num 2) (Num 11))) (Holds (vec-of (Num 10) (Num 11)))))",
        )
        .map_err(|e| format!("next query does not see recorded equality: {e}"))?;
    Ok(())
}

#[test]
fn containers_canonical_after_small_union_single_thread() {
    run_history(1).unwrap();
}

#[test]
fn containers_canonical_after_small_union_two_threads() {
    run_history(2).unwrap();
}

#[test]
fn containers_canonical_after_small_union_many_threads() {
    run_history(8).unwrap();
}
