//! Demonstration for seeded defect C14b.
//!
//! Property (C14): containers of e-class ids stay canonical under unions of
//! their elements, for both container rebuild strategies (incremental / full).
//!
//! The container memo table switches to the *incremental* rebuild strategy
//! once a container sort has more than 1000 interned values and the batch of
//! fresh unions is small. These tests build such a table and then apply two
//! successive unions that hit the same Vec element: a ~ b, then b ~ c, where
//! the id order is c < b < a (the union-find keeps the smaller id).
//!
//! Place this file at `tests/seed_C14.rs` and run
//! `cargo test --offline --test seed_C14`.

use egglog::EGraph;

/// `filler` controls how many unrelated `(Vec E)` values are interned before
/// the interesting part of the program runs.
fn prelude(filler: usize) -> String {
    let mut p = String::new();
    p.push_str(
        r#"
        (sort E)
        (constructor n (i64) E)
        (constructor c () E)
        (constructor b () E)
        (constructor a () E)
        (sort VE (Vec E))
        (constructor holds (VE) E)
        (relation fired ())
        ;; fix the id order: c < b < a
        (c)
        (b)
        (a)
        "#,
    );
    for i in 0..filler {
        p.push_str(&format!("(holds (vec-of (n {i})))\n"));
    }
    p
}

const CHAIN: &str = r#"
    (let $va (vec-of (a) (n 0)))
    (holds $va)

    ;; first union: `a` is displaced by `b`; $va is rebuilt in place.
    (union (a) (b))
    (check (= $va (vec-of (b) (n 0))))

    ;; second union: `b` is displaced by `c`; $va must follow.
    (union (b) (c))
    (check (= $va (vec-of (c) (n 0))))
    (check (= (holds $va) (holds (vec-of (c) (n 0)))))
"#;

const RULE: &str = r#"
    (rule ((holds (vec-of (c) (n 0)))) ((fired)))
    (let $va (vec-of (a) (n 0)))
    (holds $va)
    (union (a) (b))
    (run 1)
    (union (b) (c))
    (run 1)
    (check (fired))
"#;

fn run(filler: usize, body: &str) -> Result<(), egglog::Error> {
    let mut egraph = EGraph::default();
    let program = format!("{}{}", prelude(filler), body);
    egraph.parse_and_run_program(None, &program).map(|_| ())
}

/// Full (non-incremental) container rebuild: few containers.
#[test]
fn chain_of_unions_small_table() {
    run(8, CHAIN).unwrap();
}

/// Incremental container rebuild: > 1000 containers, one union at a time.
#[test]
fn chain_of_unions_large_table() {
    run(1500, CHAIN).unwrap();
}

/// Same, observed through a rule whose body only becomes matchable once the
/// container has been re-canonicalised.
#[test]
fn rule_fires_after_chain_small_table() {
    run(8, RULE).unwrap();
}

#[test]
fn rule_fires_after_chain_large_table() {
    run(1500, RULE).unwrap();
}

/// Naive evaluation of the same program (with the seeded defect the container
/// value itself is stale, so this fails as well as the semi-naive variant).
#[test]
fn rule_fires_after_chain_large_table_naive() {
    let mut egraph = EGraph::default();
    egraph.seminaive = false;
    let program = format!("{}{}", prelude(1500), RULE);
    egraph.parse_and_run_program(None, &program).unwrap();
}
