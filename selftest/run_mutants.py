#!/usr/bin/env python3
"""Development self-test: apply one source mutation at a time to a scratch worktree of /repo (outside
/repo and /verif), run the property's check against it (EGV_REPO), and require that the check
(a) fires and names the expected rule for breaking mutants, (b) stays silent for behaviour-preserving
edits (expect = null).  The scratch worktree is removed at the end.

usage: run_mutants.py [id-substring ...]"""
import json
import os
import subprocess
import sys

HERE = os.path.dirname(os.path.abspath(__file__))
VERIF = os.path.dirname(HERE)
SCRATCH = "/tmp/egv-mut-%d" % os.getpid()


def sh(cmd, **kw):
    return subprocess.run(cmd, shell=True, text=True, stdout=subprocess.PIPE, stderr=subprocess.STDOUT, **kw)


def main():
    want = sys.argv[1:]
    with open(os.path.join(HERE, "mutants.json")) as fh:
        mutants = json.load(fh)
    if want:
        mutants = [m for m in mutants if any(w in m["id"] for w in want)]
    sh(f"git -C /repo worktree remove --force {SCRATCH}")
    r = sh(f"git -C /repo worktree add --detach {SCRATCH} HEAD")
    if r.returncode != 0:
        print(r.stdout)
        return 2
    results = []
    try:
        for m in mutants:
            sh(f"git -C {SCRATCH} checkout -- .")
            ok_apply = True
            if "patch" in m:
                r = sh(f"git -C {SCRATCH} apply {os.path.join(VERIF, m['patch'])}")
                if r.returncode != 0:
                    print(f"!! {m['id']}: patch does not apply: {r.stdout[-300:]}")
                    ok_apply = False
            for e in m.get("edits", []):
                p = os.path.join(SCRATCH, e["file"])
                s = open(p).read()
                if s.count(e["old"]) != e.get("count", 1):
                    print(f"!! {m['id']}: pattern occurs {s.count(e['old'])}x in {e['file']} (expected {e.get('count', 1)})")
                    ok_apply = False
                    break
                s = s.replace(e["old"], e["new"])
                open(p, "w").write(s)
            if not ok_apply:
                results.append((m["id"], "APPLY-FAILED"))
                continue
            verdicts = []
            for prop in m["props"]:
                env = dict(os.environ, EGV_REPO=SCRATCH, EGV_NO_EVIDENCE="1")
                r = subprocess.run([os.path.join(VERIF, "check"), prop], env=env, text=True,
                                   stdout=subprocess.PIPE, stderr=subprocess.STDOUT)
                out = r.stdout
                if r.returncode == 2:
                    verdicts.append(f"{prop}:ANALYSIS-ERROR")
                    print(out[-1500:])
                    continue
                exp = m.get("expect")
                if exp is None:
                    verdicts.append(f"{prop}:{'silent-OK' if r.returncode == 0 else 'FALSE-ALARM'}")
                    if r.returncode != 0:
                        print(out)
                else:
                    hit = r.returncode == 1 and exp in out
                    verdicts.append(f"{prop}:{'caught' if hit else 'MISSED'}")
                    if not hit:
                        print(out[-2500:])
            results.append((m["id"], " ".join(verdicts)))
            print(f"{m['id']:55s} {' '.join(verdicts)}", flush=True)
    finally:
        sh(f"git -C /repo worktree remove --force {SCRATCH}")
    bad = [r for r in results if "MISSED" in r[1] or "FALSE-ALARM" in r[1] or "FAILED" in r[1] or "ERROR" in r[1]]
    print(f"\n{len(results)} mutants, {len(bad)} problems")
    return 1 if bad else 0


if __name__ == "__main__":
    sys.exit(main())
