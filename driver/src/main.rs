// egv-driver: a rustc_private driver that dumps MIR / type facts of the crate being compiled
// as JSON lines. Injected through RUSTC_WORKSPACE_WRAPPER; argv[1] is the real rustc path.
//
// One file per rustc process is written into $EGV_FACTS_DIR (one write at the end), named
// <crate>-<cratetype>-<pid>.jsonl. If EGV_FACTS_DIR is unset the driver behaves like rustc.
#![feature(rustc_private)]

extern crate rustc_abi;
extern crate rustc_driver;
extern crate rustc_hir;
extern crate rustc_interface;
extern crate rustc_middle;
extern crate rustc_span;

use rustc_abi::FIRST_VARIANT;
use rustc_driver::{Callbacks, Compilation};
use rustc_hir::def::DefKind;
use rustc_hir::def_id::{DefId, LOCAL_CRATE};
use rustc_interface::interface::Compiler;
use rustc_middle::mir::{
    AggregateKind, BasicBlock, Body, BorrowKind, Const, Operand, Place, PlaceTy, ProjectionElem,
    Rvalue, StatementKind, TerminatorKind, UnwindAction, VarDebugInfoContents,
};
use rustc_middle::ty::print::with_no_trimmed_paths;
use rustc_middle::ty::TypeVisitableExt;
use rustc_middle::ty::{self, GenericArgKind, GenericArgsRef, Instance, Ty, TyCtxt, TypingEnv};
use rustc_span::Span;
use std::fmt::Write as _;

struct Cb;

fn esc(out: &mut String, s: &str) {
    out.push('"');
    for c in s.chars() {
        match c {
            '"' => out.push_str("\\\""),
            '\\' => out.push_str("\\\\"),
            '\n' => out.push_str("\\n"),
            '\r' => out.push_str("\\r"),
            '\t' => out.push_str("\\t"),
            c if (c as u32) < 0x20 => {
                let _ = write!(out, "\\u{:04x}", c as u32);
            }
            c => out.push(c),
        }
    }
    out.push('"');
}

/// Canonical definition path (never a re-export): `crate::mod::Item`. Methods are named through
/// their self type (`crate::mod::Type::method`, `<crate::Type as crate::Trait>::method`), closures
/// as `<parent>::{closure#N}`, items nested in function bodies as `<fn>::Item`.
fn raw_path<'tcx>(tcx: TyCtxt<'tcx>, did: DefId) -> String {
    nice_name(tcx, did)
}

fn nice_name<'tcx>(tcx: TyCtxt<'tcx>, did: DefId) -> String {
    if did.is_crate_root() {
        return tcx.crate_name(did.krate).to_string();
    }
    let kind = tcx.def_kind(did);
    let parent = tcx.parent(did);
    let key = tcx.def_key(did);
    match kind {
        DefKind::Closure | DefKind::InlineConst | DefKind::AnonConst | DefKind::SyntheticCoroutineBody => {
            let tag = match kind {
                DefKind::Closure => "closure",
                DefKind::InlineConst => "inline_const",
                DefKind::AnonConst => "anon_const",
                _ => "synthetic",
            };
            return format!(
                "{}::{{{}#{}}}",
                nice_name(tcx, parent),
                tag,
                key.disambiguated_data.disambiguator
            );
        }
        _ => {}
    }
    if let DefKind::Impl { of_trait } = tcx.def_kind(parent) {
        let self_ty = tcx.type_of(parent).instantiate_identity().skip_norm_wip();
        let self_str = match self_ty.kind() {
            ty::Adt(def, _) => nice_name(tcx, def.did()),
            _ => with_no_trimmed_paths!(format!("{}", self_ty)),
        };
        let name = match tcx.opt_item_name(did) {
            Some(n) => n.to_string(),
            None => format!("{}", key.disambiguated_data.data),
        };
        if of_trait {
            let tr = tcx.impl_trait_ref(parent).instantiate_identity().skip_norm_wip();
            return format!("<{} as {}>::{}", self_str, nice_name(tcx, tr.def_id), name);
        } else {
            return format!("{}::{}", self_str, name);
        }
    }
    let name = match tcx.opt_item_name(did) {
        Some(n) => n.to_string(),
        None => format!("{}#{}", key.disambiguated_data.data, key.disambiguated_data.disambiguator),
    };
    format!("{}::{}", nice_name(tcx, parent), name)
}

fn ty_str<'tcx>(ty: Ty<'tcx>) -> String {
    let mut s = with_no_trimmed_paths!(format!("{}", ty));
    if s.len() > 600 {
        let mut cut = 600;
        while !s.is_char_boundary(cut) {
            cut -= 1;
        }
        s.truncate(cut);
        s.push('…');
    }
    s
}

/// Full type printer for ADT args (including defaulted ones such as hashers).
fn full_ty<'tcx>(tcx: TyCtxt<'tcx>, ty: Ty<'tcx>, depth: usize) -> String {
    if depth > 8 {
        return "…".into();
    }
    match ty.kind() {
        ty::Adt(def, args) => {
            let mut s = raw_path(tcx, def.did());
            let targs: Vec<String> = args
                .iter()
                .filter_map(|a| match a.kind() {
                    GenericArgKind::Type(t) => Some(full_ty(tcx, t, depth + 1)),
                    GenericArgKind::Const(c) => Some(format!("{}", c)),
                    _ => None,
                })
                .collect();
            if !targs.is_empty() {
                s.push('<');
                s.push_str(&targs.join(", "));
                s.push('>');
            }
            s
        }
        ty::Ref(_, t, m) => format!("&{}{}", if m.is_mut() { "mut " } else { "" }, full_ty(tcx, *t, depth + 1)),
        ty::RawPtr(t, m) => format!("*{} {}", if m.is_mut() { "mut" } else { "const" }, full_ty(tcx, *t, depth + 1)),
        ty::Slice(t) => format!("[{}]", full_ty(tcx, *t, depth + 1)),
        ty::Array(t, n) => format!("[{}; {}]", full_ty(tcx, *t, depth + 1), n),
        ty::Tuple(ts) => {
            let v: Vec<String> = ts.iter().map(|t| full_ty(tcx, t, depth + 1)).collect();
            format!("({})", v.join(", "))
        }
        _ => ty_str(ty),
    }
}

struct TyWalk {
    adts: Vec<String>,
    dyns: Vec<String>,
    // (kind, pointee string, freeze, is_dyn)
    handles: Vec<(String, String, bool, bool)>,
}

fn walk_ty<'tcx>(tcx: TyCtxt<'tcx>, owner: DefId, ty: Ty<'tcx>, w: &mut TyWalk, depth: usize) {
    if depth > 10 {
        return;
    }
    let tenv = TypingEnv::post_analysis(tcx, owner);
    let mut handle = |kind: &str, pointee: Ty<'tcx>, w: &mut TyWalk| {
        let is_dyn = matches!(pointee.kind(), ty::Dynamic(..));
        let freeze = if is_dyn {
            false
        } else if pointee.has_escaping_bound_vars() {
            // parameter type under a `for<'a>` binder (dyn Fn(&mut X<'_>)): not stored data.
            return;
        } else {
            pointee.is_freeze(tcx, tenv)
        };
        w.handles.push((kind.to_string(), full_ty(tcx, pointee, 0), freeze, is_dyn));
    };
    match ty.kind() {
        ty::Adt(def, args) => {
            let p = raw_path(tcx, def.did());
            if !w.adts.contains(&p) {
                w.adts.push(p.clone());
            }
            let is_arc = p == "alloc::sync::Arc" || p == "alloc::rc::Rc" || p == "alloc::sync::Weak" || p == "alloc::rc::Weak";
            for (i, a) in args.iter().enumerate() {
                if let GenericArgKind::Type(t) = a.kind() {
                    if is_arc && i == 0 {
                        handle(if p.contains("sync") { "Arc" } else { "Rc" }, t, w);
                    }
                    walk_ty(tcx, owner, t, w, depth + 1);
                }
            }
        }
        ty::Ref(_, t, _) => {
            handle("ref", *t, w);
            walk_ty(tcx, owner, *t, w, depth + 1);
        }
        ty::RawPtr(t, _) => {
            handle("rawptr", *t, w);
            walk_ty(tcx, owner, *t, w, depth + 1);
        }
        ty::Slice(t) | ty::Array(t, _) => walk_ty(tcx, owner, *t, w, depth + 1),
        ty::Tuple(ts) => {
            for t in ts.iter() {
                walk_ty(tcx, owner, t, w, depth + 1);
            }
        }
        ty::Dynamic(preds, ..) => {
            if let Some(p) = preds.principal_def_id() {
                let s = raw_path(tcx, p);
                if !w.dyns.contains(&s) {
                    w.dyns.push(s);
                }
            }
            // generic args of the principal (e.g. dyn Fn(A) -> B)
            if let Some(pr) = preds.principal() {
                for a in pr.skip_binder().args.iter() {
                    if let GenericArgKind::Type(t) = a.kind() {
                        walk_ty(tcx, owner, t, w, depth + 1);
                    }
                }
            }
        }
        ty::FnPtr(sig, _) => {
            for t in sig.skip_binder().inputs_and_output.iter() {
                walk_ty(tcx, owner, t, w, depth + 1);
            }
        }
        _ => {}
    }
}

struct FnCx<'a, 'tcx> {
    tcx: TyCtxt<'tcx>,
    body: &'a Body<'tcx>,
    did: DefId,
    tenv: TypingEnv<'tcx>,
}

impl<'a, 'tcx> FnCx<'a, 'tcx> {
    fn line(&self, sp: Span) -> usize {
        let sm = self.tcx.sess.source_map();
        sm.lookup_char_pos(sp.lo()).line
    }

    fn macro_name(&self, sp: Span) -> Option<String> {
        if sp.from_expansion() {
            let d = sp.ctxt().outer_expn_data();
            Some(match d.kind {
                rustc_span::ExpnKind::Macro(_, name) => name.to_string(),
                rustc_span::ExpnKind::Desugaring(k) => format!("desugar:{:?}", k),
                rustc_span::ExpnKind::AstPass(_) => "astpass".to_string(),
                rustc_span::ExpnKind::Root => "root".to_string(),
            })
        } else {
            None
        }
    }

    fn place(&self, out: &mut String, p: &Place<'tcx>) {
        let _ = write!(out, "[{},[", p.local.as_usize());
        let mut pty = PlaceTy::from_ty(self.body.local_decls[p.local].ty);
        let mut first = true;
        for elem in p.projection.iter() {
            if !first {
                out.push(',');
            }
            first = false;
            match elem {
                ProjectionElem::Deref => out.push_str("\"*\""),
                ProjectionElem::Field(f, _) => {
                    let name = match pty.ty.kind() {
                        ty::Adt(adt, _) => {
                            let v = adt.variant(pty.variant_index.unwrap_or(FIRST_VARIANT));
                            v.fields.get(f).map(|fd| fd.name.to_string()).unwrap_or_else(|| f.as_usize().to_string())
                        }
                        _ => f.as_usize().to_string(),
                    };
                    out.push_str("[\"f\",");
                    let _ = write!(out, "{},", f.as_usize());
                    esc(out, &name);
                    out.push(']');
                }
                ProjectionElem::Index(l) => {
                    let _ = write!(out, "[\"i\",{}]", l.as_usize());
                }
                ProjectionElem::ConstantIndex { offset, from_end, .. } => {
                    let _ = write!(out, "[\"ci\",{},{}]", offset, from_end);
                }
                ProjectionElem::Subslice { from, to, from_end } => {
                    let _ = write!(out, "[\"sub\",{},{},{}]", from, to, from_end);
                }
                ProjectionElem::Downcast(name, vidx) => {
                    let n = match name {
                        Some(s) => s.to_string(),
                        None => match pty.ty.kind() {
                            ty::Adt(adt, _) => adt.variant(vidx).name.to_string(),
                            _ => vidx.as_usize().to_string(),
                        },
                    };
                    out.push_str("[\"d\",");
                    esc(out, &n);
                    out.push(']');
                }
                ProjectionElem::OpaqueCast(_) => out.push_str("\"oc\""),
                ProjectionElem::UnwrapUnsafeBinder(_) => out.push_str("\"ub\""),
            }
            pty = pty.projection_ty(self.tcx, elem);
        }
        out.push_str("]]");
    }

    fn konst(&self, out: &mut String, c: &Const<'tcx>) {
        let ty = c.ty();
        if let ty::FnDef(did, args) = ty.kind() {
            out.push_str("[\"fn\",");
            let (res, _) = self.resolve(*did, args);
            esc(out, &res);
            out.push(',');
            esc(out, &nice_name(self.tcx, *did));
            out.push(']');
            return;
        }
        let mut s = match c {
            Const::Unevaluated(uv, _) if uv.promoted.is_none() => format!("const {}", nice_name(self.tcx, uv.def)),
            _ => with_no_trimmed_paths!(format!("{}", c)),
        };
        if s.len() > 500 {
            let mut cut = 500;
            while !s.is_char_boundary(cut) {
                cut -= 1;
            }
            s.truncate(cut);
        }
        out.push_str("[\"k\",");
        esc(out, &s);
        out.push(',');
        esc(out, &ty_str(ty));
        out.push(']');
    }

    fn operand(&self, out: &mut String, o: &Operand<'tcx>) {
        match o {
            Operand::Copy(p) => {
                out.push_str("[\"c\",");
                self.place(out, p);
                out.push(']');
            }
            Operand::Move(p) => {
                out.push_str("[\"m\",");
                self.place(out, p);
                out.push(']');
            }
            Operand::Constant(c) => self.konst(out, &c.const_),
            #[allow(unreachable_patterns)]
            _ => out.push_str("[\"k\",\"?\",\"?\"]"),
        }
    }

    /// Resolve a callee to the most specific instance we can; returns (nice name, resolved?)
    fn resolve(&self, did: DefId, args: GenericArgsRef<'tcx>) -> (String, bool) {
        let tcx = self.tcx;
        // Erase regions before resolving.
        let args = tcx.erase_and_anonymize_regions(args);
        match Instance::try_resolve(tcx, self.tenv, did, args) {
            Ok(Some(inst)) => {
                let rd = inst.def_id();
                let resolved = match inst.def {
                    ty::InstanceKind::Virtual(..) => false,
                    _ => true,
                };
                (nice_name(tcx, rd), resolved)
            }
            _ => (nice_name(tcx, did), false),
        }
    }

    fn rvalue(&self, out: &mut String, rv: &Rvalue<'tcx>) {
        match rv {
            Rvalue::Use(op, _) => {
                out.push_str("[\"use\",");
                self.operand(out, op);
                out.push(']');
            }
            Rvalue::Repeat(op, _) => {
                out.push_str("[\"repeat\",");
                self.operand(out, op);
                out.push(']');
            }
            Rvalue::Ref(_, bk, p) => {
                let k = match bk {
                    BorrowKind::Shared => "shared",
                    BorrowKind::Fake(_) => "fake",
                    BorrowKind::Mut { .. } => "mut",
                };
                let _ = write!(out, "[\"ref\",\"{}\",", k);
                self.place(out, p);
                out.push(']');
            }
            Rvalue::ThreadLocalRef(did) => {
                out.push_str("[\"tls\",");
                esc(out, &nice_name(self.tcx, *did));
                out.push(']');
            }
            Rvalue::RawPtr(k, p) => {
                let _ = write!(out, "[\"rawptr\",\"{:?}\",", k);
                self.place(out, p);
                out.push(']');
            }
            Rvalue::Cast(k, op, ty) => {
                let ks = format!("{:?}", k);
                out.push_str("[\"cast\",");
                esc(out, &ks);
                out.push(',');
                self.operand(out, op);
                out.push(',');
                esc(out, &ty_str(*ty));
                out.push(']');
            }
            Rvalue::BinaryOp(op, b) => {
                let _ = write!(out, "[\"bin\",\"{:?}\",", op);
                self.operand(out, &b.0);
                out.push(',');
                self.operand(out, &b.1);
                out.push(']');
            }
            Rvalue::UnaryOp(op, a) => {
                let _ = write!(out, "[\"un\",\"{:?}\",", op);
                self.operand(out, a);
                out.push(']');
            }
            Rvalue::Discriminant(p) => {
                out.push_str("[\"disc\",");
                self.place(out, p);
                out.push(']');
            }
            Rvalue::Aggregate(kind, ops) => {
                out.push_str("[\"agg\",");
                match &**kind {
                    AggregateKind::Array(_) => out.push_str("\"array\",\"\",\"\""),
                    AggregateKind::Tuple => out.push_str("\"tuple\",\"\",\"\""),
                    AggregateKind::Adt(did, vidx, _, _, _) => {
                        out.push_str("\"adt\",");
                        esc(out, &raw_path(self.tcx, *did));
                        out.push(',');
                        let adt = self.tcx.adt_def(*did);
                        esc(out, &adt.variant(*vidx).name.to_string());
                    }
                    AggregateKind::Closure(did, _) => {
                        out.push_str("\"closure\",");
                        esc(out, &nice_name(self.tcx, *did));
                        out.push_str(",\"\"");
                    }
                    AggregateKind::Coroutine(did, _) | AggregateKind::CoroutineClosure(did, _) => {
                        out.push_str("\"coroutine\",");
                        esc(out, &nice_name(self.tcx, *did));
                        out.push_str(",\"\"");
                    }
                    AggregateKind::RawPtr(..) => out.push_str("\"rawptr\",\"\",\"\""),
                }
                out.push_str(",[");
                for (i, o) in ops.iter().enumerate() {
                    if i > 0 {
                        out.push(',');
                    }
                    self.operand(out, o);
                }
                out.push_str("]]");
            }
            Rvalue::CopyForDeref(p) => {
                out.push_str("[\"use\",[\"c\",");
                self.place(out, p);
                out.push_str("]]");
            }
            Rvalue::WrapUnsafeBinder(op, _) => {
                out.push_str("[\"use\",");
                self.operand(out, op);
                out.push(']');
            }
            #[allow(unreachable_patterns)]
            _ => {
                out.push_str("[\"other\",");
                esc(out, &format!("{:?}", rv).chars().take(80).collect::<String>());
                out.push(']');
            }
        }
    }

    fn bb(&self, b: BasicBlock) -> usize {
        b.as_usize()
    }

    fn unwind(&self, u: &UnwindAction) -> String {
        match u {
            UnwindAction::Cleanup(b) => format!("{}", b.as_usize()),
            _ => "null".to_string(),
        }
    }

    fn terminator(&self, out: &mut String, t: &rustc_middle::mir::Terminator<'tcx>) {
        let line = self.line(t.source_info.span);
        match &t.kind {
            TerminatorKind::Goto { target } => {
                let _ = write!(out, "[\"goto\",{}]", self.bb(*target));
            }
            TerminatorKind::SwitchInt { discr, targets } => {
                out.push_str("[\"switch\",");
                self.operand(out, discr);
                out.push_str(",[");
                for (i, (v, b)) in targets.iter().enumerate() {
                    if i > 0 {
                        out.push(',');
                    }
                    let _ = write!(out, "[\"{}\",{}]", v, self.bb(b));
                }
                let _ = write!(out, "],{},{}]", self.bb(targets.otherwise()), line);
            }
            TerminatorKind::UnwindResume => out.push_str("[\"resume\"]"),
            TerminatorKind::UnwindTerminate(_) => out.push_str("[\"terminate\"]"),
            TerminatorKind::Return => {
                let _ = write!(out, "[\"ret\",{}]", line);
            }
            TerminatorKind::Unreachable => out.push_str("[\"unreachable\"]"),
            TerminatorKind::Drop { place, target, unwind, .. } => {
                out.push_str("[\"drop\",");
                self.place(out, place);
                let _ = write!(out, ",{},{}]", self.bb(*target), self.unwind(unwind));
            }
            TerminatorKind::Call { func, args, destination, target, unwind, fn_span, .. } => {
                out.push_str("[\"call\",");
                self.callee(out, func);
                out.push_str(",[");
                for (i, a) in args.iter().enumerate() {
                    if i > 0 {
                        out.push(',');
                    }
                    self.operand(out, &a.node);
                }
                out.push_str("],");
                self.place(out, destination);
                let tgt = match target {
                    Some(b) => format!("{}", self.bb(*b)),
                    None => "null".to_string(),
                };
                let _ = write!(out, ",{},{},{},", tgt, self.unwind(unwind), self.line(*fn_span));
                match self.macro_name(*fn_span) {
                    Some(m) => esc(out, &m),
                    None => out.push_str("null"),
                }
                out.push(']');
            }
            TerminatorKind::TailCall { func, args, fn_span } => {
                out.push_str("[\"tailcall\",");
                self.callee(out, func);
                out.push_str(",[");
                for (i, a) in args.iter().enumerate() {
                    if i > 0 {
                        out.push(',');
                    }
                    self.operand(out, &a.node);
                }
                let _ = write!(out, "],{}]", self.line(*fn_span));
            }
            TerminatorKind::Assert { cond, expected, msg, target, unwind } => {
                out.push_str("[\"assert\",");
                self.operand(out, cond);
                let kind = format!("{:?}", msg);
                let kind: String = kind.chars().take_while(|c| c.is_alphanumeric()).collect();
                let _ = write!(out, ",{},\"{}\",{},{}]", expected, kind, self.bb(*target), self.unwind(unwind));
            }
            TerminatorKind::FalseEdge { real_target, .. } => {
                let _ = write!(out, "[\"goto\",{}]", self.bb(*real_target));
            }
            TerminatorKind::FalseUnwind { real_target, .. } => {
                let _ = write!(out, "[\"goto\",{}]", self.bb(*real_target));
            }
            _ => {
                out.push_str("[\"otherterm\",");
                esc(out, &format!("{:?}", t.kind).chars().take(60).collect::<String>());
                out.push(']');
            }
        }
    }

    /// {"p": resolved name, "d": declared name, "r": resolved?, "ga": [declared generic args], "ra": [resolved instance args], "via": operand if indirect}
    fn callee(&self, out: &mut String, func: &Operand<'tcx>) {
        let fty = match func {
            Operand::Constant(c) => c.const_.ty(),
            Operand::Copy(p) | Operand::Move(p) => p.ty(self.body, self.tcx).ty,
            #[allow(unreachable_patterns)]
            _ => {
                out.push_str("{\"p\":\"?\",\"d\":\"?\",\"r\":false,\"ga\":[],\"ra\":[]}");
                return;
            }
        };
        match fty.kind() {
            ty::FnDef(did, args) => {
                let tcx = self.tcx;
                let eargs = tcx.erase_and_anonymize_regions(*args);
                let (p, r, ra) = match Instance::try_resolve(tcx, self.tenv, *did, eargs) {
                    Ok(Some(inst)) => {
                        let resolved = !matches!(inst.def, ty::InstanceKind::Virtual(..));
                        let ra: Vec<String> = inst
                            .args
                            .iter()
                            .filter_map(|a| match a.kind() {
                                GenericArgKind::Type(t) => Some(full_ty(tcx, t, 0)),
                                _ => None,
                            })
                            .collect();
                        (nice_name(tcx, inst.def_id()), resolved, ra)
                    }
                    _ => (nice_name(tcx, *did), false, vec![]),
                };
                out.push_str("{\"p\":");
                esc(out, &p);
                out.push_str(",\"d\":");
                esc(out, &nice_name(tcx, *did));
                let _ = write!(out, ",\"r\":{},\"ga\":[", r);
                let mut first = true;
                for a in args.iter() {
                    if let GenericArgKind::Type(t) = a.kind() {
                        if !first {
                            out.push(',');
                        }
                        first = false;
                        esc(out, &full_ty(tcx, t, 0));
                    }
                }
                out.push_str("],\"ra\":[");
                for (i, a) in ra.iter().enumerate() {
                    if i > 0 {
                        out.push(',');
                    }
                    esc(out, a);
                }
                out.push_str("]}");
            }
            _ => {
                // fn pointer or other indirect call
                out.push_str("{\"p\":\"<indirect>\",\"d\":\"<indirect>\",\"r\":false,\"ga\":[");
                esc(out, &ty_str(fty));
                out.push_str("],\"ra\":[],\"via\":");
                self.operand(out, func);
                out.push('}');
            }
        }
    }
}

fn dump_fn<'tcx>(tcx: TyCtxt<'tcx>, did: DefId, out: &mut String) {
    let ldid = match did.as_local() {
        Some(l) => l,
        None => return,
    };
    let kind = tcx.def_kind(did);
    if !matches!(kind, DefKind::Fn | DefKind::AssocFn | DefKind::Closure) {
        return;
    }
    if !tcx.is_mir_available(did) {
        return;
    }
    // const fns: optimized_mir is fine for runtime MIR.
    let body: &Body<'tcx> = tcx.optimized_mir(did);
    let tenv = TypingEnv::post_analysis(tcx, did);
    let cx = FnCx { tcx, body, did, tenv };
    let _ = cx.did;
    let sm = tcx.sess.source_map();
    let sp = tcx.def_span(did);
    let loc = sm.lookup_char_pos(sp.lo());
    let file = format!("{}", loc.file.name.prefer_local_unconditionally());
    out.push_str("{\"k\":\"fn\",\"name\":");
    esc(out, &nice_name(tcx, did));
    out.push_str(",\"raw\":");
    esc(out, &raw_path(tcx, did));
    let kinds = match kind {
        DefKind::Fn => "fn",
        DefKind::AssocFn => "assoc",
        _ => "closure",
    };
    let _ = write!(out, ",\"kind\":\"{}\"", kinds);
    if kind == DefKind::Closure {
        out.push_str(",\"parent\":");
        esc(out, &nice_name(tcx, tcx.parent(did)));
        out.push_str(",\"root\":");
        esc(out, &nice_name(tcx, tcx.typeck_root_def_id(did)));
    }
    if matches!(kind, DefKind::Fn | DefKind::AssocFn) {
        let vis = tcx.visibility(did);
        let _ = write!(out, ",\"pub\":{}", vis.is_public());
        // trait impl?
        if kind == DefKind::AssocFn {
            let parent = tcx.parent(did);
            if let DefKind::Impl { of_trait: true } = tcx.def_kind(parent) {
                let _ = write!(out, ",\"derived\":{}", tcx.is_automatically_derived(parent));
            }
        }
    }
    out.push_str(",\"file\":");
    esc(out, &file);
    let _ = write!(out, ",\"line\":{},\"exp\":{},\"argc\":{}", loc.line, sp.from_expansion(), body.arg_count);
    let _ = ldid;
    // locals
    out.push_str(",\"locals\":[");
    for (i, d) in body.local_decls.iter().enumerate() {
        if i > 0 {
            out.push(',');
        }
        esc(out, &full_ty(tcx, d.ty, 0));
    }
    out.push_str("],\"vars\":[");
    let mut first = true;
    for v in body.var_debug_info.iter() {
        if let VarDebugInfoContents::Place(p) = &v.value {
            if !first {
                out.push(',');
            }
            first = false;
            out.push('[');
            esc(out, &v.name.to_string());
            out.push(',');
            cx.place(out, p);
            out.push(']');
        }
    }
    out.push_str("],\"blocks\":[");
    for (bi, bb) in body.basic_blocks.iter().enumerate() {
        if bi > 0 {
            out.push(',');
        }
        let _ = write!(out, "{{\"c\":{},\"s\":[", bb.is_cleanup);
        let mut first = true;
        for st in bb.statements.iter() {
            match &st.kind {
                StatementKind::Assign(b) => {
                    if !first {
                        out.push(',');
                    }
                    first = false;
                    out.push_str("[\"a\",");
                    cx.place(out, &b.0);
                    out.push(',');
                    cx.rvalue(out, &b.1);
                    let _ = write!(out, ",{}", cx.line(st.source_info.span));
                    if st.source_info.span.from_expansion() {
                        out.push(',');
                        match cx.macro_name(st.source_info.span) {
                            Some(m) => esc(out, &m),
                            None => out.push_str("null"),
                        }
                    }
                    out.push(']');
                }
                StatementKind::SetDiscriminant { place, variant_index } => {
                    if !first {
                        out.push(',');
                    }
                    first = false;
                    out.push_str("[\"setdisc\",");
                    cx.place(out, place);
                    let _ = write!(out, ",{}]", variant_index.as_usize());
                }
                StatementKind::Intrinsic(_) => {
                    if !first {
                        out.push(',');
                    }
                    first = false;
                    out.push_str("[\"intrinsic\"]");
                }
                _ => {}
            }
        }
        out.push_str("],\"t\":");
        match &bb.terminator {
            Some(t) => cx.terminator(out, t),
            None => out.push_str("[\"none\"]"),
        }
        out.push('}');
    }
    out.push_str("]}\n");
}

fn dump_adt<'tcx>(tcx: TyCtxt<'tcx>, did: DefId, out: &mut String) {
    let adt = tcx.adt_def(did);
    out.push_str("{\"k\":\"adt\",\"name\":");
    esc(out, &raw_path(tcx, did));
    let kind = if adt.is_enum() {
        "enum"
    } else if adt.is_union() {
        "union"
    } else {
        "struct"
    };
    let sm = tcx.sess.source_map();
    let loc = sm.lookup_char_pos(tcx.def_span(did).lo());
    let adt_ty = tcx.type_of(did).instantiate_identity().skip_norm_wip();
    let adt_freeze = adt_ty.is_freeze(tcx, TypingEnv::post_analysis(tcx, did));
    let _ = write!(out, ",\"kind\":\"{}\",\"freeze\":{},\"generic\":{},\"file\":", kind, adt_freeze, !tcx.generics_of(did).is_empty());
    esc(out, &format!("{}", loc.file.name.prefer_local_unconditionally()));
    let _ = write!(out, ",\"line\":{},\"variants\":[", loc.line);
    for (vi, v) in adt.variants().iter().enumerate() {
        if vi > 0 {
            out.push(',');
        }
        out.push_str("{\"name\":");
        esc(out, &v.name.to_string());
        out.push_str(",\"fields\":[");
        for (fi, f) in v.fields.iter().enumerate() {
            if fi > 0 {
                out.push(',');
            }
            let fty = tcx.type_of(f.did).instantiate_identity().skip_norm_wip();
            let mut w = TyWalk { adts: vec![], dyns: vec![], handles: vec![] };
            walk_ty(tcx, did, fty, &mut w, 0);
            out.push_str("{\"name\":");
            esc(out, &f.name.to_string());
            out.push_str(",\"ty\":");
            esc(out, &full_ty(tcx, fty, 0));
            out.push_str(",\"adts\":[");
            for (i, a) in w.adts.iter().enumerate() {
                if i > 0 {
                    out.push(',');
                }
                esc(out, a);
            }
            out.push_str("],\"dyns\":[");
            for (i, a) in w.dyns.iter().enumerate() {
                if i > 0 {
                    out.push(',');
                }
                esc(out, a);
            }
            out.push_str("],\"handles\":[");
            for (i, (k, p, fr, dy)) in w.handles.iter().enumerate() {
                if i > 0 {
                    out.push(',');
                }
                out.push_str("{\"kind\":");
                esc(out, k);
                out.push_str(",\"pointee\":");
                esc(out, p);
                let _ = write!(out, ",\"freeze\":{},\"dyn\":{}}}", fr, dy);
            }
            out.push_str("]}");
        }
        out.push_str("]}");
    }
    out.push_str("]}\n");
}

fn dump_impl<'tcx>(tcx: TyCtxt<'tcx>, did: DefId, of_trait: bool, out: &mut String) {
    let self_ty = tcx.type_of(did).instantiate_identity().skip_norm_wip();
    out.push_str("{\"k\":\"impl\",\"trait\":");
    if of_trait {
        let tr = tcx.impl_trait_ref(did).instantiate_identity().skip_norm_wip();
        esc(out, &raw_path(tcx, tr.def_id));
    } else {
        out.push_str("null");
    }
    out.push_str(",\"self\":");
    esc(out, &full_ty(tcx, self_ty, 0));
    out.push_str(",\"self_adt\":");
    match self_ty.kind() {
        ty::Adt(def, _) => esc(out, &raw_path(tcx, def.did())),
        _ => out.push_str("null"),
    }
    let _ = write!(out, ",\"derived\":{},\"methods\":[", of_trait && tcx.is_automatically_derived(did));
    let mut first = true;
    for item in tcx.associated_items(did).in_definition_order() {
        if matches!(item.kind, ty::AssocKind::Fn { .. }) {
            if !first {
                out.push(',');
            }
            first = false;
            esc(out, &nice_name(tcx, item.def_id));
        }
    }
    out.push_str("]}\n");
}

impl Callbacks for Cb {
    fn after_analysis<'tcx>(&mut self, _c: &Compiler, tcx: TyCtxt<'tcx>) -> Compilation {
        let dir = match std::env::var("EGV_FACTS_DIR") {
            Ok(d) => d,
            Err(_) => return Compilation::Continue,
        };
        let cname = tcx.crate_name(LOCAL_CRATE).to_string();
        if cname.starts_with("build_script") {
            return Compilation::Continue;
        }
        let ctype = format!("{:?}", tcx.crate_types().first());
        let ctype = if ctype.contains("Executable") {
            "bin"
        } else if ctype.contains("ProcMacro") {
            return Compilation::Continue;
        } else {
            "lib"
        };
        let mut out = String::with_capacity(1 << 24);
        let mut nfn = 0usize;
        for ldid in tcx.hir_body_owners() {
            let did = ldid.to_def_id();
            let before = out.len();
            dump_fn(tcx, did, &mut out);
            if out.len() > before {
                nfn += 1;
            }
        }
        let mut nadt = 0usize;
        let mut nimpl = 0usize;
        for ldid in tcx.hir_crate_items(()).definitions() {
            let did = ldid.to_def_id();
            match tcx.def_kind(did) {
                DefKind::Struct | DefKind::Enum | DefKind::Union => {
                    dump_adt(tcx, did, &mut out);
                    nadt += 1;
                }
                DefKind::Impl { of_trait } => {
                    dump_impl(tcx, did, of_trait, &mut out);
                    nimpl += 1;
                }
                DefKind::Const { .. } => {
                    if tcx.generics_of(did).is_empty() {
                        if let Ok(val) = tcx.const_eval_poly(did) {
                            let ty = tcx.type_of(did).instantiate_identity().skip_norm_wip();
                            let c = Const::Val(val, ty);
                            let mut v = with_no_trimmed_paths!(format!("{}", c));
                            v.truncate(300);
                            out.push_str("{\"k\":\"const\",\"name\":");
                            esc(&mut out, &nice_name(tcx, did));
                            out.push_str(",\"value\":");
                            esc(&mut out, &v);
                            out.push_str("}\n");
                        }
                    }
                }
                _ => {}
            }
        }
        let _ = write!(
            out,
            "{{\"k\":\"meta\",\"crate\":\"{}\",\"ctype\":\"{}\",\"fns\":{},\"adts\":{},\"impls\":{}}}\n",
            cname, ctype, nfn, nadt, nimpl
        );
        let path = format!("{}/{}-{}-{}.jsonl", dir, cname, ctype, std::process::id());
        std::fs::write(&path, out).expect("write facts");
        Compilation::Continue
    }
}

fn main() {
    let mut args: Vec<String> = std::env::args().collect();
    // RUSTC_WORKSPACE_WRAPPER: argv[1] is the path of the real rustc.
    if args.len() > 1 && (args[1].ends_with("rustc") || args[1].contains("/rustc")) {
        args.remove(1);
    }
    rustc_driver::run_compiler(&args, &mut Cb);
}
