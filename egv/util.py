"""Shared rule helpers on top of facts.py."""
from .facts import Fn, Call, rv_operands, is_transparent


def copies_of(fn, local, depth=4):
    """locals that are plain copies/moves of `local` (forward, a few hops)"""
    out = {local}
    for _ in range(depth):
        grew = False
        for i, j, s in fn.assigns():
            if s[1][1]:
                continue
            rv = s[2]
            if rv[0] in ("use", "cast"):
                o = rv[1] if rv[0] == "use" else rv[2]
                if o[0] in ("c", "m") and not o[1][1] and o[1][0] in out and s[1][0] not in out:
                    out.add(s[1][0])
                    grew = True
        if not grew:
            break
    return out


def trace_back(fn, operand, depth=6):
    """follow single-definition copies backwards; returns the earliest local (or None)"""
    o = operand
    for _ in range(depth):
        if o[0] not in ("c", "m") or o[1][1]:
            return None
        l = o[1][0]
        d = fn.single_def(l)
        if d is None:
            return l
        bb, idx, _, kind, payload = d
        if kind == "call":
            return l
        if payload[0] == "use" and payload[1][0] in ("c", "m") and not payload[1][1][1]:
            o = payload[1]
            continue
        return l
    return o[1][0] if o[0] in ("c", "m") else None


def result_branches(fn, call):
    """switch blocks testing the bool result of `call` (possibly through copies or a `!`):
    list of (switch_bb, true_succ, false_succ)"""
    out = []
    dl = call.dest[0]
    if call.dest[1]:
        return out
    for b in sorted(fn.live):
        t = fn.term(b)
        if t[0] != "switch":
            continue
        neg = False
        d = fn.describe_operand(t[1])
        while d and d[0] == "not":
            neg = not neg
            d = d[1]
        hit = False
        if d and d[0] == "call" and d[1].bb == call.bb:
            hit = True
        elif d and d[0] == "val":
            l = trace_back(fn, d[1])
            hit = l == dl
        if not hit:
            continue
        zero = [tb for v, tb in t[2] if v == "0"]
        if not zero:
            continue
        f, tr = zero[0], t[3]
        if neg:
            f, tr = tr, f
        out.append((b, tr, f))
    return out


def region_of_branch(fn, sw, succ):
    """blocks (transitively) control dependent on taking the edge sw->succ"""
    return {x for x in fn.live if (sw, succ) in fn.ctrl_closure(x)}


def region_calls(fn, region):
    return [c for c in fn.calls if c.bb in region]


def region_assigns(fn, region):
    for i, j, s in fn.assigns():
        if i in region:
            yield i, j, s


def enum_variants(prog, adt_name):
    adt = prog.adts.get(adt_name)
    if adt is None:
        return None
    return [v["name"] for v in adt["variants"]]


def _strip_refs(t):
    t = t.strip()
    while True:
        if t.startswith("&mut "):
            t = t[5:]
        elif t.startswith("&"):
            t = t[1:]
        elif t.startswith("alloc::boxed::Box<"):
            t = t[len("alloc::boxed::Box<"):]
        else:
            return t.strip()


def _head(t):
    t = _strip_refs(t)
    for i, ch in enumerate(t):
        if ch in "<, >)":
            return t[:i]
    return t


def place_type_head(prog, fn, place):
    """ADT path of the type of `place` (refs stripped), or None if it cannot be determined from the
    ADT field tables (generic parameters, tuples, ...)."""
    cur = _head(fn.locals[place[0]])
    variant = None
    for e in place[1]:
        if isinstance(e, str):
            continue
        if e[0] == "d":
            variant = e[1]
            continue
        if e[0] == "f":
            adt = prog.adts.get(cur)
            if adt is None:
                return None
            vs = adt["variants"]
            v = next((x for x in vs if x["name"] == variant), None) if variant else vs[0]
            variant = None
            if v is None:
                return None
            fd = next((x for x in v["fields"] if x["name"] == e[2]), None)
            if fd is None:
                return None
            cur = _head(fd["ty"])
            if "::" not in cur:
                return None
            continue
        return None
    return cur


def match_arms(prog, fn, adt_name):
    """switches on the discriminant of a value of enum `adt_name`:
    list of (switch_bb, {variant_name: succ_bb}, otherwise_bb, place)"""
    variants = enum_variants(prog, adt_name)
    out = []
    if variants is None:
        return out
    for b in sorted(fn.live):
        t = fn.term(b)
        if t[0] != "switch":
            continue
        d = fn.describe_operand(t[1])
        if not d or d[0] != "disc":
            continue
        place = d[1]
        head = place_type_head(prog, fn, place)
        if head is None:
            # unknown (generic field): accept only if the local's own type is the enum
            if _head(fn.locals[place[0]]) != adt_name or any(not isinstance(e, str) for e in place[1]):
                continue
        elif head != adt_name:
            continue
        arms = {}
        for v, tb in t[2]:
            vi = int(v)
            if vi < len(variants):
                arms[variants[vi]] = tb
        out.append((b, arms, t[3], place))
    return out


def arm_region(fn, sw, succ):
    return region_of_branch(fn, sw, succ) | {succ}


def atoms_kind(atoms, kind):
    return {a for a in atoms if a[0] == kind}


def origin_calls(atoms):
    return {a[1] for a in atoms if a[0] == "call"}


def selects(fn, operand, which, a_pred, b_pred):
    """Does `operand` originate from min/max (which in 'min','max') of two values satisfying
    a_pred / b_pred (predicates on operands of the min/max call or of the comparison)?
    Accepted idioms: call to cmp::min/max, Ord::min/max; or a phi of the two values controlled by a
    Lt/Le/Gt/Ge comparison of the same two values with the matching polarity."""
    atoms = fn.origins(operand)
    calls = [a for a in atoms if a[0] == "call"]
    ok_any = False
    for a in atoms:
        if a[0] == "call":
            nm = a[1]
            if nm.endswith("cmp::" + which) or nm.endswith("Ord>::" + which) or nm.endswith("::Ord::" + which) or nm.endswith("cmp::Ord::" + which):
                c = fn.call_at(a[2])
                if len(c.args) == 2 and ((a_pred(c.args[0]) and b_pred(c.args[1])) or (a_pred(c.args[1]) and b_pred(c.args[0]))):
                    ok_any = True
                    continue
            return False
    if calls:
        return ok_any and all(a[0] == "call" for a in atoms)
    return False


def stores_through(fn, region=None):
    """assignments whose destination goes through a deref (store through a reference)"""
    for i, j, s in fn.assigns():
        if region is not None and i not in region:
            continue
        if "*" in [e for e in s[1][1] if isinstance(e, str)]:
            yield i, j, s


def field_writes(fn, field, region=None):
    """assignments to a place whose last field projection is `field`"""
    for i, j, s in fn.assigns():
        if region is not None and i not in region:
            continue
        pj = [e for e in s[1][1] if not isinstance(e, str)]
        if pj and pj[-1][0] == "f" and pj[-1][2] == field:
            yield i, j, s


def place_has_field(place, field):
    return any((not isinstance(e, str)) and e[0] == "f" and e[2] == field for e in place[1])


def operand_local(o):
    if o[0] in ("c", "m") and not o[1][1]:
        return o[1][0]
    return None


def const_val(o):
    if o[0] == "k":
        return o[1]
    return None


def fmt_atoms(atoms, limit=6):
    out = []
    for a in sorted(atoms, key=str)[:limit]:
        if a[0] == "call":
            out.append(f"call {a[1]}" + ("." + ".".join(a[3]) if a[3] else ""))
        elif a[0] == "param":
            out.append(f"param#{a[1]}" + ("." + ".".join(a[2]) if a[2] else ""))
        elif a[0] == "const":
            out.append(f"const {a[1]}")
        elif a[0] == "agg":
            out.append(f"{a[2]}::{a[3]}{{..}}")
        else:
            out.append(" ".join(str(x) for x in a))
    return out


NEG = {"Eq": "Ne", "Ne": "Eq", "Lt": "Ge", "Ge": "Lt", "Gt": "Le", "Le": "Gt"}
CMP_CALLS = {
    "PartialEq::eq": "Eq", "PartialEq>::eq": "Eq", "PartialEq::ne": "Ne", "PartialEq>::ne": "Ne",
    "PartialOrd::lt": "Lt", "PartialOrd>::lt": "Lt", "PartialOrd::le": "Le", "PartialOrd>::le": "Le",
    "PartialOrd::gt": "Gt", "PartialOrd>::gt": "Gt", "PartialOrd::ge": "Ge", "PartialOrd>::ge": "Ge",
}


def cmp_kind(call):
    for suf, k in CMP_CALLS.items():
        if call.p.endswith(suf) or call.d.endswith(suf):
            return k
    return None


def edge_relation(fn, b, s):
    """What is known to hold when control goes from switch block b to successor s.
    Returns a dict: {'rel': 'Eq'|'Ne'|'Lt'|..., 'a': operand, 'b': operand}                (comparison)
                 or {'truth': True|False, 'desc': described operand}                        (bool test)
                 or {'variant': [values], 'place': place}                                   (enum discriminant)
                 or None"""
    t = fn.term(b)
    if t[0] != "switch":
        return None
    vals = fn.branch_value(b, s)
    if not vals:
        return None
    d = fn.describe_operand(t[1])
    neg = False
    while d and d[0] == "not":
        neg = not neg
        d = d[1]
    if d is None:
        return None
    if d[0] == "disc":
        return {"variant": vals, "place": d[1], "all": [v for v, _ in t[2]]}
    # boolean: value "0" = false; otherwise = true (when 0 is listed)
    listed = [v for v, _ in t[2]]
    if vals == ["0"]:
        truth = False
    elif vals == ["otherwise"] and listed == ["0"]:
        truth = True
    elif vals == ["1"]:
        truth = True
    else:
        return {"values": vals, "desc": d}
    if neg:
        truth = not truth
    if d[0] == "bin" and d[1] in NEG:
        rel = d[1] if truth else NEG[d[1]]
        return {"rel": rel, "a": d[2], "b": d[3]}
    if d[0] == "call":
        k = cmp_kind(d[1])
        if k and len(d[1].args) == 2:
            rel = k if truth else NEG[k]
            return {"rel": rel, "a": d[1].args[0], "b": d[1].args[1], "call": d[1]}
    return {"truth": truth, "desc": d}


def may_guards(fn, bb):
    """edge relations of every (transitive) control dependence of bb: each holds on SOME path to bb
    (a disjunction `a || b` contributes both a and !a&&b)"""
    out = []
    for (b, s) in fn.ctrl_closure(bb):
        r = edge_relation(fn, b, s)
        if r is not None:
            r = dict(r)
            r["at"] = (b, s)
            out.append(r)
    return out


def reachable_without_edges(fn, target, edges):
    """is `target` reachable from the entry when all the given CFG edges are removed?"""
    edges = set(edges)
    seen = {0}
    stack = [0]
    while stack:
        x = stack.pop()
        if x == target:
            return True
        for s in fn.succ[x]:
            if (x, s) in edges or s in seen:
                continue
            seen.add(s)
            stack.append(s)
    return target in seen


def _reachable_without_edge(fn, target, edge):
    seen = {0}
    stack = [0]
    while stack:
        x = stack.pop()
        if x == target:
            return True
        for s in fn.succ[x]:
            if (x, s) == edge or s in seen:
                continue
            seen.add(s)
            stack.append(s)
    return target in seen


def guards(fn, bb):
    """edge relations that hold on EVERY path from the function entry to bb: switch edges (b, s) such
    that bb is unreachable once the edge is removed (edge dominance). Sound for 'is guarded by'."""
    cache = fn.__dict__.setdefault("_must_guards", {})
    if bb in cache:
        return cache[bb]
    out = []
    for b in fn.dom.get(bb, ()):
        if len(fn.succ[b]) < 2:
            continue
        for s in fn.succ[b]:
            if bb != s and bb not in fn.reach(s):
                continue
            if _reachable_without_edge(fn, bb, (b, s)):
                continue
            r = edge_relation(fn, b, s)
            if r is not None:
                r = dict(r)
                r["at"] = (b, s)
                out.append(r)
    cache[bb] = out
    return out


def params_of(fn, operand):
    return {a[1] for a in fn.origins(operand) if a[0] == "param" and not a[2]}


def _is_extreme_call(p, which):
    return (p.endswith("cmp::" + which) or p.endswith("Ord>::" + which) or p.endswith("::Ord::" + which)
            or p.endswith("::" + which + "_by_key") and False)


def check_selects(fn, defs, A, B, which):
    """Every definition in `defs` (list of (bb, idx, kind, payload) as in Fn.defs, for the place of
    interest) must select the `which` ('min'|'max') of the two values with origin sets A and B.
    Accepted: call to cmp::min/max (or Ord::min/max) on (A,B) in either order; a plain copy of A or B
    guarded by a comparison of A and B that makes it the extreme (or by A == B).
    Returns list of problem strings (empty = holds) and the number of extreme-call selections seen."""
    problems = []
    n_sel = 0
    other = "max" if which == "min" else "min"
    for (bb, idx, kind, payload) in defs:
        if kind == "call":
            c = payload
            if _is_extreme_call(c.p, which) and len(c.args) == 2:
                x, y = fn.origins(c.args[0]), fn.origins(c.args[1])
                if (x == A and y == B) or (x == B and y == A):
                    n_sel += 1
                    continue
                problems.append(f"{which} taken over unexpected operands at bb{bb}")
                continue
            if _is_extreme_call(c.p, other):
                problems.append(f"selects {other} instead of {which} (call {c.p} at line {c.line})")
                continue
            problems.append(f"value produced by call {c.p} at line {c.line}, not a {which} of the two ids")
            continue
        rv = payload
        if rv[0] == "use":
            src = fn.origins(rv[1])
            # min/max call reached through a copy
            calls = [a for a in src if a[0] == "call"]
            if calls and all(_is_extreme_call(a[1], which) for a in src if a[0] == "call") and len(calls) == len(src):
                okc = True
                for a in calls:
                    c = fn.call_at(a[2])
                    x, y = fn.origins(c.args[0]), fn.origins(c.args[1])
                    if not ((x == A and y == B) or (x == B and y == A)):
                        okc = False
                if okc:
                    n_sel += 1
                    continue
            if any(a[0] == "call" and _is_extreme_call(a[1], other) for a in src):
                problems.append(f"selects {other} instead of {which} at bb{bb}")
                continue
            if src == A or src == B:
                sel_a = src == A
                good = False
                for g in guards(fn, bb):
                    if "rel" not in g:
                        continue
                    ga, gb = fn.origins(g["a"]), fn.origins(g["b"])
                    rel = g["rel"]
                    if ga == B and gb == A:
                        ga, gb = gb, ga
                        rel = {"Lt": "Gt", "Le": "Ge", "Gt": "Lt", "Ge": "Le"}.get(rel, rel)
                    if not (ga == A and gb == B):
                        continue
                    if rel == "Eq":
                        good = True
                    elif which == "min" and ((rel in ("Lt", "Le") and sel_a) or (rel in ("Gt", "Ge") and not sel_a)):
                        good = True
                        n_sel += 1
                    elif which == "max" and ((rel in ("Gt", "Ge") and sel_a) or (rel in ("Lt", "Le") and not sel_a)):
                        good = True
                        n_sel += 1
                if good:
                    continue
                problems.append(f"returns one of the two ids at bb{bb} without a comparison that makes it the {which}")
                continue
        problems.append(f"value at bb{bb} is neither a {which} of the two ids nor one of them under equality")
    return problems, n_sel


def whole_defs(fn, local):
    return [(bb, idx, kind, payload) for (bb, idx, dproj, kind, payload) in fn.defs.get(local, []) if not dproj]


def variant_is(g, idx, nvariants=2):
    """does guard g (an edge_relation dict with 'variant') establish that the discriminant equals idx?
    Handles the `otherwise` edge of a switch that lists every other variant."""
    if "variant" not in g:
        return False
    vals = g["variant"]
    if vals == [str(idx)]:
        return True
    if vals == ["otherwise"]:
        listed = set(g.get("all", []))
        others = {str(i) for i in range(nvariants) if i != idx}
        return listed == others
    return False


PASS_THROUGH_CALLS = ("cmp::min", "cmp::max", "Ord>::min", "Ord>::max", "NumericId>::index", "NumericId::index", "NumericId>::from_usize",
                      "NumericId::from_usize", "NumericId>::new", "::saturating_sub", "::saturating_add", "::wrapping_sub", "::wrapping_add",
                      "::checked_sub", "::checked_add", "usize::min", "usize::max", "::inc", "::step_by", "::rev")


def deep_sources(prog, f, operand, depth=0, seen=None):
    """leaf origins of a numeric value: looks through arithmetic (bin/un ops), min/max/index()/from_usize-like
    calls and closure captures (resolved in the parent at the closure's creation site). Returns a set of
    (fn_name, atom) with atoms as in Fn.origins (call / param / const / local ...)."""
    if seen is None:
        seen = set()
    out = set()
    if depth > 10:
        return out
    for a in f.origins(operand):
        key = (f.name, a)
        if key in seen:
            continue
        seen.add(key)
        if a[0] in ("bin", "un"):
            st = f.stmt(a[2], a[3])
            for o in rv_operands(st[2]):
                out |= deep_sources(prog, f, o, depth + 1, seen)
        elif a[0] == "call" and any(a[1].endswith(p) for p in PASS_THROUGH_CALLS):
            c = f.call_at(a[2])
            for o in c.args:
                out |= deep_sources(prog, f, o, depth + 1, seen)
        elif a[0] == "param" and a[1] == 1 and f.kind == "closure" and a[2] and a[2][0].isdigit():
            par = prog.fns.get(f.parent)
            done = False
            if par is not None:
                for (bi, bj, name, ops) in par.closures_created():
                    if name == f.name and int(a[2][0]) < len(ops):
                        out |= deep_sources(prog, par, ops[int(a[2][0])], depth + 1, seen)
                        done = True
            if not done:
                out.add(key)
        else:
            out.add(key)
    return out


def escapes(fn, start, need, target):
    """can control get from `start` to `target` without entering a block of `need`? (`start` itself counts: if it is in `need` nothing escapes)"""
    seen, stack = set(), [start]
    while stack:
        x = stack.pop()
        if x in seen or x in need:
            continue
        seen.add(x)
        if x == target:
            return True
        stack.extend(fn.succ[x])
    return False
