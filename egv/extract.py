"""Fact extraction: build the rustc_private driver, run it over the workspace at REPO and cache
the resulting JSON-lines fact files, keyed by a hash of every file that can influence compilation.
A check therefore always analyses the current working tree."""
import fcntl
import glob
import hashlib
import json
import os
import shutil
import subprocess
import sys
import time

VERIF = os.path.dirname(os.path.dirname(os.path.abspath(__file__)))
CACHE = os.path.join(VERIF, ".cache")
DRIVER_SRC = os.path.join(VERIF, "driver")
DRIVER_TARGET = os.path.join(CACHE, "driver-target")
DRIVER_BIN = os.path.join(DRIVER_TARGET, "release", "egv-driver")

# crate -> minimum number of function bodies (floors counted on the pinned tree, ~60 %)
EXPECTED = {
    "egglog": 1500,
    "egglog_bridge": 200,
    "egglog_core_relations": 1200,
    "egglog_concurrency": 150,
    "egglog_union_find": 30,
    "egglog_numeric_id": 30,
    "egglog_ast": 100,
    "egglog_reports": 40,
}

CONFIGS = {
    "default": ["--workspace"],
    "nodefault": ["--workspace", "--no-default-features"],
    "allfeatures": ["--workspace", "--all-features"],
}


class AnalysisError(Exception):
    pass


def repo_path():
    return os.path.abspath(os.environ.get("EGV_REPO", "/repo"))


def tree_hash(repo):
    h = hashlib.sha256()
    files = []
    for root, dirs, fs in os.walk(repo):
        dirs[:] = sorted(d for d in dirs if d not in ("target", ".git", "node_modules", "www", "profile-viz"))
        for f in sorted(fs):
            if f.endswith((".rs", ".toml", ".lock", ".md")):
                files.append(os.path.join(root, f))
    for p in files:
        h.update(os.path.relpath(p, repo).encode())
        h.update(b"\0")
        try:
            with open(p, "rb") as fh:
                h.update(hashlib.sha256(fh.read()).digest())
        except OSError:
            h.update(b"?")
    # the driver itself is part of the key
    with open(os.path.join(DRIVER_SRC, "src", "main.rs"), "rb") as fh:
        h.update(hashlib.sha256(fh.read()).digest())
    return h.hexdigest()


def sysroot():
    return subprocess.check_output(["rustc", "+nightly", "--print", "sysroot"], text=True).strip()


def build_driver():
    src = os.path.join(DRIVER_SRC, "src", "main.rs")
    if os.path.exists(DRIVER_BIN) and os.path.getmtime(DRIVER_BIN) >= os.path.getmtime(src):
        return
    env = dict(os.environ, CARGO_TARGET_DIR=DRIVER_TARGET, CARGO_NET_OFFLINE="true")
    env.pop("RUSTC_WORKSPACE_WRAPPER", None)
    env.pop("RUSTFLAGS", None)
    r = subprocess.run(["cargo", "build", "--release", "--offline"], cwd=DRIVER_SRC, env=env,
                       stdout=subprocess.PIPE, stderr=subprocess.STDOUT, text=True)
    if r.returncode != 0:
        raise AnalysisError("driver build failed:\n" + r.stdout[-3000:])


def _run_extract(repo, config, outdir):
    target = os.path.join(CACHE, "target")
    os.makedirs(target, exist_ok=True)
    # cargo's freshness cache would skip the wrapper for unchanged members: force them.
    for d in glob.glob(os.path.join(target, "debug", ".fingerprint", "egglog*")):
        shutil.rmtree(d, ignore_errors=True)
    tmp = outdir + ".tmp"
    shutil.rmtree(tmp, ignore_errors=True)
    os.makedirs(tmp)
    env = dict(os.environ)
    env.update({
        "LD_LIBRARY_PATH": os.path.join(sysroot(), "lib"),
        "EGV_FACTS_DIR": tmp,
        "RUSTFLAGS": "-Zmir-opt-level=0 -Awarnings",
        "RUSTC_WORKSPACE_WRAPPER": DRIVER_BIN,
        "CARGO_TARGET_DIR": target,
        "CARGO_NET_OFFLINE": "true",
    })
    cmd = ["cargo", "+nightly", "check", "--offline"] + CONFIGS[config]
    r = subprocess.run(cmd, cwd=repo, env=env, stdout=subprocess.PIPE, stderr=subprocess.STDOUT, text=True)
    if r.returncode != 0:
        raise AnalysisError("cargo check through the driver failed (tree does not compile?):\n" + r.stdout[-4000:])
    # fail closed: every expected crate must have produced a fresh fact file above its floor
    seen = {}
    for f in glob.glob(os.path.join(tmp, "*-lib-*.jsonl")):
        with open(f, "rb") as fh:
            fh.seek(max(0, os.path.getsize(f) - 400))
            tail = fh.read().decode("utf8", "replace").strip().splitlines()[-1]
        meta = json.loads(tail)
        seen[meta["crate"]] = meta["fns"]
    for c, floor in EXPECTED.items():
        if seen.get(c, 0) < floor:
            raise AnalysisError(f"fact file for crate {c} missing or too small ({seen.get(c)} < {floor})")
    shutil.rmtree(outdir, ignore_errors=True)
    os.rename(tmp, outdir)


def ensure_facts(config="default", verbose=True):
    """Returns (facts_dir, tree_hash, extracted_now)."""
    repo = repo_path()
    os.makedirs(CACHE, exist_ok=True)
    tag = hashlib.sha256(repo.encode()).hexdigest()[:10] if repo != "/repo" else "repo"
    outdir = os.path.join(CACHE, "facts", f"{tag}-{config}")
    os.makedirs(os.path.dirname(outdir), exist_ok=True)
    with open(os.path.join(CACHE, "lock"), "w") as lock:
        fcntl.flock(lock, fcntl.LOCK_EX)
        h = tree_hash(repo)
        hfile = os.path.join(outdir, "HASH")
        if os.path.exists(hfile) and open(hfile).read().strip() == h:
            return outdir, h, False
        t0 = time.time()
        build_driver()
        _run_extract(repo, config, outdir)
        with open(hfile, "w") as fh:
            fh.write(h)
        # derived caches are stale now
        for p in glob.glob(os.path.join(outdir, "*.pickle")):
            os.remove(p)
        if verbose:
            print(f"[egv] extracted facts for {repo} ({config}) in {time.time()-t0:.1f}s", file=sys.stderr)
        return outdir, h, True


if __name__ == "__main__":
    cfgs = sys.argv[1:] or ["default"]
    try:
        for c in cfgs:
            d, h, fresh = ensure_facts(c)
            print(d, h[:12], "extracted" if fresh else "cached")
    except AnalysisError as e:
        print("ANALYSIS-ERROR", e)
        sys.exit(2)
