"""Fact loader and the analysis primitives (CFG, dominators, post-dominators, control dependence,
value origins, call graph, must-call summaries). Everything works on MIR facts dumped by the
driver, i.e. on the resolved program."""
import glob
import json
import os
import pickle
import sys
from collections import defaultdict

sys.setrecursionlimit(20000)

WORKSPACE_CRATES = (
    "egglog", "egglog_bridge", "egglog_core_relations", "egglog_concurrency",
    "egglog_union_find", "egglog_numeric_id", "egglog_ast", "egglog_reports",
)

# Calls through which a value's identity is preserved (first argument flows to the result).
TRANSPARENT = (
    "core::clone::Clone>::clone", "core::clone::Clone::clone",
    "Deref>::deref", "DerefMut>::deref_mut", "Deref::deref", "DerefMut::deref_mut",
    "core::convert::Into>::into", "core::convert::From>::from", "core::convert::Into::into",
    "AsRef>::as_ref", "AsMut>::as_mut", "Borrow>::borrow", "BorrowMut>::borrow_mut",
    "Index>::index", "IndexMut>::index_mut",
    "core::option::Option::unwrap", "core::option::Option::expect", "core::result::Result::unwrap",
    "core::result::Result::expect", "core::option::Option::as_ref", "core::option::Option::as_mut",
    "core::option::Option::as_deref", "core::option::Option::copied", "core::option::Option::cloned",
    "Try>::branch", "alloc::vec::Vec::as_slice", "alloc::vec::Vec::as_mut_slice",
    "IntoIterator>::into_iter", "[T]::iter", "Iterator::copied", "Iterator::cloned", "Iterator::enumerate",
    "alloc::boxed::Box::new", "alloc::sync::Arc::new", "core::option::Option::unwrap_or_default",
    "ToOwned>::to_owned", "smallvec::SmallVec::as_slice", "[T]::to_vec",
    "core::mem::take", "core::option::Option::take", "core::option::Option::unwrap_unchecked",
)


def is_transparent(p):
    return any(p.endswith(t) for t in TRANSPARENT)


class Call:
    __slots__ = ("fn", "bb", "p", "d", "resolved", "ga", "ra", "args", "dest", "target", "unwind", "line", "macro", "via")

    def __init__(self, fn, bb, t):
        c = t[1]
        self.fn = fn
        self.bb = bb
        self.p = c["p"]
        self.d = c["d"]
        self.resolved = c["r"]
        self.ga = c["ga"]
        self.ra = c["ra"]
        self.via = c.get("via")
        self.args = t[2]
        if t[0] == "call":
            self.dest = t[3]
            self.target = t[4]
            self.unwind = t[5]
            self.line = t[6]
            self.macro = t[7]
        else:  # tailcall
            self.dest = [0, []]
            self.target = None
            self.unwind = None
            self.line = t[3]
            self.macro = None

    def __repr__(self):
        return f"<call {self.p} @{self.fn.name}:bb{self.bb} L{self.line}>"

    @property
    def loc(self):
        return f"{self.fn.file}:{self.line}"

    def is_(self, *suffixes):
        return any(self.p == s or self.p.endswith("::" + s) or self.d == s or self.d.endswith("::" + s) for s in suffixes)


def norm_proj(proj):
    """Projection list -> tuple of symbolic path elements (derefs dropped)."""
    out = []
    for e in proj:
        if e == "*" or e == "oc" or e == "ub":
            continue
        k = e[0]
        if k == "f":
            out.append(e[2])
        elif k == "i":
            out.append("[]")
        elif k == "ci":
            out.append("[%d]" % e[1] if not e[2] else "[-%d]" % e[1])
        elif k == "sub":
            out.append("[..]")
        elif k == "d":
            out.append("@" + e[1])
    return tuple(out)


class Fn:
    def __init__(self, rec, crate):
        self.rec = rec
        self.crate = crate
        self.name = rec["name"]
        self.kind = rec["kind"]
        self.parent = rec.get("parent")
        self.root = rec.get("root")
        self.file = rec["file"]
        self.line = rec["line"]
        self.argc = rec["argc"]
        self.locals = rec["locals"]
        self.blocks = rec["blocks"]
        self.is_pub = rec.get("pub", False)
        self.derived = rec.get("derived", False)
        self.from_expansion = rec.get("exp", False)
        self._succ = None
        self._pred = None
        self._calls = None
        self._dom = None
        self._pdom = None
        self._defs = None
        self._cd = None
        self._reach = {}
        self.varnames = {}
        for name, place in rec["vars"]:
            if not place[1]:
                self.varnames.setdefault(place[0], name)
        self.upvars = {}
        for name, place in rec["vars"]:
            if place[1] and place[0] == 1:
                self.upvars[norm_proj(place[1])] = name

    def __repr__(self):
        return f"<fn {self.name}>"

    @property
    def loc(self):
        return f"{self.file}:{self.line}"

    def var(self, name):
        """locals carrying the user variable `name`"""
        return [l for l, n in self.varnames.items() if n == name]

    # ---------------------------------------------------------------- CFG
    def term(self, bb):
        return self.blocks[bb]["t"]

    def stmts(self, bb):
        return self.blocks[bb]["s"]

    def _build_cfg(self):
        n = len(self.blocks)
        succ = [[] for _ in range(n)]
        for i, b in enumerate(self.blocks):
            if b["c"]:
                continue
            t = b["t"]
            k = t[0]
            if k == "goto":
                succ[i] = [t[1]]
            elif k == "switch":
                s = [x[1] for x in t[2]] + [t[3]]
                seen = []
                for x in s:
                    if x not in seen:
                        seen.append(x)
                succ[i] = seen
            elif k == "call":
                if t[4] is not None:
                    succ[i] = [t[4]]
            elif k == "drop":
                succ[i] = [t[2]]
            elif k == "assert":
                succ[i] = [t[4]]
        # drop edges into cleanup blocks (none by construction) and compute preds
        pred = [[] for _ in range(n)]
        for i, s in enumerate(succ):
            for x in s:
                pred[x].append(i)
        self._succ = succ
        self._pred = pred

    @property
    def succ(self):
        if self._succ is None:
            self._build_cfg()
        return self._succ

    @property
    def pred(self):
        if self._pred is None:
            self._build_cfg()
        return self._pred

    def is_unreachable_block(self, bb):
        return self.term(bb)[0] == "unreachable"

    @property
    def live(self):
        """blocks reachable from entry over normal edges"""
        return self.reach(0) | {0}

    def reach(self, bb):
        """blocks reachable from bb by >= 1 normal edge"""
        r = self._reach.get(bb)
        if r is None:
            r = set()
            stack = list(self.succ[bb])
            while stack:
                x = stack.pop()
                if x in r:
                    continue
                r.add(x)
                stack.extend(self.succ[x])
            self._reach[bb] = r
        return r

    def reach_avoiding(self, start_blocks, avoid):
        """blocks reachable from any of start_blocks' successors (>=1 edge) without entering `avoid`."""
        r = set()
        stack = []
        for b in start_blocks:
            stack.extend(self.succ[b])
        while stack:
            x = stack.pop()
            if x in r or x in avoid:
                continue
            r.add(x)
            stack.extend(self.succ[x])
        return r

    @property
    def ret_blocks(self):
        return [i for i in self.live if self.term(i)[0] == "ret"]

    # ---------------------------------------------------------------- dominators
    def _dom_sets(self, succ, pred, roots, nodes):
        dom = {x: set(nodes) for x in nodes}
        for r in roots:
            dom[r] = {r}
        changed = True
        order = list(nodes)
        while changed:
            changed = False
            for x in order:
                if x in roots:
                    continue
                ps = [p for p in pred[x] if p in dom]
                if ps:
                    new = set.intersection(*(dom[p] for p in ps)) | {x}
                else:
                    new = {x}
                if new != dom[x]:
                    dom[x] = new
                    changed = True
        return dom

    @property
    def dom(self):
        if self._dom is None:
            nodes = self.live
            # reverse postorder-ish order helps convergence; use sorted ids
            self._dom = self._dom_sets(self.succ, self.pred, {0}, sorted(nodes))
        return self._dom

    @property
    def pdom(self):
        """post-dominator sets over normal-return paths; virtual exit = -1.
        Only blocks that can reach a return are included."""
        if self._pdom is None:
            rets = self.ret_blocks
            can = set(rets)
            stack = list(rets)
            while stack:
                x = stack.pop()
                for p in self.pred[x]:
                    if p not in can and p in self.live:
                        can.add(p)
                        stack.append(p)
            nodes = sorted(can) + [-1]
            rsucc = {x: [p for p in self.pred[x] if p in can] for x in can}
            rsucc[-1] = list(rets)
            rpred = {x: [s for s in self.succ[x] if s in can] for x in can}
            for r in rets:
                rpred[r] = rpred[r] + [-1]
            rpred[-1] = []
            self._pdom = self._dom_sets(rsucc, rpred, {-1}, nodes)
        return self._pdom

    def dominates(self, a, b):
        return b in self.dom and a in self.dom[b]

    def postdominates(self, a, b):
        """a post-dominates b (every normal path from b to return passes a)"""
        return b in self.pdom and a in self.pdom[b]

    def pos_dominates(self, pa, pb):
        """positions are (bb, idx); idx = len(stmts) for the terminator"""
        if pa[0] == pb[0]:
            return pa[1] <= pb[1]
        return self.dominates(pa[0], pb[0])

    # ---------------------------------------------------------------- control dependence
    @property
    def ctrl(self):
        """bb -> set of (switch_bb, succ_bb) it is directly control dependent on"""
        if self._cd is None:
            cd = defaultdict(set)
            pd = self.pdom
            for b in self.live:
                ss = self.succ[b]
                if len(ss) < 2:
                    continue
                for s in ss:
                    if s not in pd:
                        continue
                    # every X that postdominates s (incl. s) and does not strictly postdominate b
                    for x in pd[s]:
                        if x == -1:
                            continue
                        if b in pd and x in pd[b] and x != b:
                            continue
                        cd[x].add((b, s))
            self._cd = cd
        return self._cd

    def ctrl_closure(self, bb):
        """transitive control dependences of bb: set of (switch_bb, succ_bb)"""
        out = set()
        work = [bb]
        seenb = set()
        while work:
            x = work.pop()
            if x in seenb:
                continue
            seenb.add(x)
            for (b, s) in self.ctrl.get(x, ()):
                if (b, s) not in out:
                    out.add((b, s))
                    work.append(b)
        return out

    def branch_value(self, b, s):
        """which switch values lead from b to s: list of value strings, 'otherwise' included"""
        t = self.term(b)
        if t[0] != "switch":
            return []
        vals = [v for v, tb in t[2] if tb == s]
        if t[3] == s:
            vals.append("otherwise")
        return vals

    # ---------------------------------------------------------------- calls / defs
    @property
    def calls(self):
        if self._calls is None:
            cs = []
            for i in sorted(self.live):
                t = self.term(i)
                if t[0] in ("call", "tailcall"):
                    cs.append(Call(self, i, t))
            self._calls = cs
        return self._calls

    def calls_to(self, *suffixes):
        return [c for c in self.calls if c.is_(*suffixes)]

    def call_at(self, bb):
        t = self.term(bb)
        if t[0] in ("call", "tailcall"):
            return Call(self, bb, t)
        return None

    @property
    def defs(self):
        """local -> list of (bb, idx, destproj, kind, payload); kind 'a' (assign rvalue) or 'call'"""
        if self._defs is None:
            d = defaultdict(list)
            for i in sorted(self.live):
                b = self.blocks[i]
                for j, s in enumerate(b["s"]):
                    if s[0] == "a":
                        d[s[1][0]].append((i, j, s[1][1], "a", s[2]))
                t = b["t"]
                if t[0] == "call":
                    d[t[3][0]].append((i, len(b["s"]), t[3][1], "call", Call(self, i, t)))
            self._defs = d
        return self._defs

    def assigns(self):
        for i in sorted(self.live):
            for j, s in enumerate(self.blocks[i]["s"]):
                if s[0] == "a":
                    yield i, j, s

    def closures_created(self):
        """(bb, idx, closure_name, operands)"""
        for i, j, s in self.assigns():
            rv = s[2]
            if rv[0] == "agg" and rv[1] in ("closure", "coroutine"):
                yield i, j, rv[2], rv[4]

    def consts(self):
        """all string-ish constants appearing in the body"""
        out = []

        def op(o):
            if o and o[0] == "k":
                out.append(o[1])

        for i in sorted(self.live):
            b = self.blocks[i]
            for s in b["s"]:
                if s[0] != "a":
                    continue
                rv = s[2]
                k = rv[0]
                if k in ("use", "repeat", "un"):
                    op(rv[-1] if k != "un" else rv[2])
                elif k == "cast":
                    op(rv[2])
                elif k == "bin":
                    op(rv[2]); op(rv[3])
                elif k == "agg":
                    for o in rv[4]:
                        op(o)
            t = b["t"]
            if t[0] in ("call", "tailcall"):
                for a in t[2]:
                    op(a)
            elif t[0] == "switch":
                op(t[1])
        return out

    # ---------------------------------------------------------------- origins
    def origins(self, val, seen=None, outargs=False, stop=None, opaque=None):
        """Backward value origin of an operand (['c'|'m', place] / ['k',..] / ['fn',..]) or a place
        ([local, proj]).  Flow-insensitive over reaching definitions (all definitions of a local
        are considered: a phi).  Returns a set of atoms:
          ('const', repr, ty) ('fnref', name) ('param', n, path) ('call', callee, bb, path)
          ('agg', kind, name, variant, bb, idx, path) ('bin', op, bb, idx) ('un', op, bb, idx)
          ('disc', bb, idx) ('local', n, path) ('closure', name, bb, idx) ('outarg', callee, bb, argi, path)
          ('other', kind, bb, idx)
        `stop`: optional predicate(local) -> bool; origin tracking stops at such locals with ('var', n, path).
        """
        if seen is None:
            seen = set()
        self._opaque = opaque
        if val and isinstance(val[0], str):
            k = val[0]
            if k == "k":
                return {("const", val[1], val[2])}
            if k == "fn":
                return {("fnref", val[1])}
            place = val[1]
        else:
            place = val
        return self._origins_place(place[0], tuple(self._pj(place[1])), seen, outargs, stop)

    @staticmethod
    def _pj(proj):
        # keep raw elements but drop derefs/opaque casts; make hashable
        out = []
        for e in proj:
            if e in ("*", "oc", "ub"):
                continue
            out.append(tuple(e))
        return out

    @staticmethod
    def _sym(pj):
        out = []
        for e in pj:
            k = e[0]
            if k == "f":
                out.append(e[2])
            elif k == "i":
                out.append("[]")
            elif k == "ci":
                out.append("[%d]" % e[1] if not e[2] else "[-%d]" % e[1])
            elif k == "sub":
                out.append("[..]")
            elif k == "d":
                out.append("@" + e[1])
        return tuple(out)

    def _origins_place(self, local, pj, seen, outargs, stop):
        if len(pj) > 8:
            pj = pj[:8]
        key = (local, pj)
        if key in seen:
            return set()
        seen.add(key)
        if stop is not None and stop(local):
            return {("var", local, self._sym(pj))}
        res = set()
        defs = self.defs.get(local, [])
        whole = False
        for (bb, idx, dproj, kind, payload) in defs:
            dpj = tuple(self._pj(dproj))
            if len(dpj) <= len(pj) and pj[:len(dpj)] == dpj:
                rest = pj[len(dpj):]
                # `(*p) = v` stores through the pointer: it does not redefine the local itself
                if not dpj and not (dproj and dproj[0] == "*"):
                    whole = True
            elif pj == dpj[:len(pj)]:
                rest = ()
            else:
                continue
            if kind == "a":
                res |= self._origins_rvalue(payload, rest, bb, idx, seen, outargs, stop)
            else:
                c = payload
                op = getattr(self, "_opaque", None)
                if (is_transparent(c.p) or is_transparent(c.d)) and not (op and any(c.p.endswith(o) or c.d.endswith(o) for o in op)):
                    if c.args:
                        extra = ()
                        if c.p.endswith(">::index") or c.p.endswith(">::index_mut"):
                            extra = (("i", -1),)
                        a = c.args[0]
                        if a[0] in ("c", "m"):
                            res |= self._origins_place(a[1][0], tuple(self._pj(a[1][1])) + extra + rest, seen, outargs, stop)
                        else:
                            res |= self.origins(a, seen, outargs, stop, getattr(self, '_opaque', None))
                    else:
                        res.add(("call", c.p, bb, self._sym(rest)))
                else:
                    res.add(("call", c.p, bb, self._sym(rest)))
        if 1 <= local <= self.argc and not whole:
            res.add(("param", local, self._sym(pj)))
        elif not defs:
            res.add(("local", local, self._sym(pj)))
        if outargs:
            res |= self._outarg_writers(local, pj)
        return res

    def _outarg_writers(self, local, pj):
        """calls that receive `&mut local` (possibly via a reborrow temp) as an argument"""
        res = set()
        refs = set()
        for i, j, s in self.assigns():
            rv = s[2]
            if rv[0] == "ref" and rv[1] == "mut" and rv[2][0] == local and not s[1][1]:
                refs.add(s[1][0])
        # one level of reborrow
        for i, j, s in self.assigns():
            rv = s[2]
            if rv[0] == "ref" and rv[1] == "mut" and rv[2][0] in refs and not s[1][1]:
                refs.add(s[1][0])
        if not refs:
            return res
        for c in self.calls:
            for ai, a in enumerate(c.args):
                if a[0] in ("c", "m") and a[1][0] in refs and not a[1][1]:
                    res.add(("outarg", c.p, c.bb, ai, self._sym(pj)))
        # `&mut local` captured by a closure: the closure may write it
        for i, j, s in self.assigns():
            rv = s[2]
            if rv[0] == "agg" and rv[1] in ("closure", "coroutine"):
                for ai, a in enumerate(rv[4]):
                    if a[0] in ("c", "m") and a[1][0] in refs and not a[1][1]:
                        res.add(("outarg", rv[2], i, ai, self._sym(pj)))
        return res

    def _origins_rvalue(self, rv, rest, bb, idx, seen, outargs, stop):
        k = rv[0]
        if k == "use":
            o = rv[1]
            if o[0] in ("c", "m"):
                return self._origins_place(o[1][0], tuple(self._pj(o[1][1])) + rest, seen, outargs, stop)
            return self.origins(o, seen, outargs, stop, getattr(self, '_opaque', None))
        if k in ("ref", "rawptr"):
            p = rv[2]
            return self._origins_place(p[0], tuple(self._pj(p[1])) + rest, seen, outargs, stop)
        if k == "cast":
            o = rv[2]
            if o[0] in ("c", "m"):
                return self._origins_place(o[1][0], tuple(self._pj(o[1][1])) + rest, seen, outargs, stop)
            return self.origins(o, seen, outargs, stop, getattr(self, '_opaque', None))
        if k == "agg":
            kind, name, variant, ops = rv[1], rv[2], rv[3], rv[4]
            if kind in ("closure", "coroutine"):
                return {("closure", name, bb, idx)}
            if rest:
                e = rest[0]
                # downcast marker followed by a field
                r = rest
                if e[0] == "d" and len(rest) > 1:
                    if kind == "adt" and e[1] != variant:
                        return set()
                    r = rest[1:]
                    e = r[0]
                if e[0] == "f" and e[1] < len(ops):
                    o = ops[e[1]]
                    if o[0] in ("c", "m"):
                        return self._origins_place(o[1][0], tuple(self._pj(o[1][1])) + r[1:], seen, outargs, stop)
                    return self.origins(o, seen, outargs, stop, getattr(self, '_opaque', None))
                if e[0] in ("i", "ci") and kind == "array":
                    res = set()
                    for o in ops:
                        res |= self.origins(o, seen, outargs, stop, getattr(self, '_opaque', None))
                    return res
            return {("agg", kind, name, variant, bb, idx, self._sym(rest))}
        if k == "bin":
            return {("bin", rv[1], bb, idx)}
        if k == "un":
            return {("un", rv[1], bb, idx)}
        if k == "disc":
            return {("disc", bb, idx)}
        if k == "repeat":
            return self.origins(rv[1], seen, outargs, stop, getattr(self, '_opaque', None))
        return {("other", k, bb, idx)}

    def stmt(self, bb, idx):
        return self.blocks[bb]["s"][idx]

    # describe the condition tested by a switch block
    def describe_discr(self, bb, depth=0):
        """('bin', op, a_operand, b_operand, (bb, idx)) | ('disc', place, variant_names?) | ('not', inner)
        | ('call', Call) | ('val', operand)"""
        t = self.term(bb)
        if t[0] != "switch":
            return None
        return self.describe_operand(t[1], depth)

    def single_def(self, local):
        ds = [d for d in self.defs.get(local, []) if not d[2]]
        if len(ds) == 1:
            return ds[0]
        return None

    def describe_operand(self, o, depth=0):
        if o[0] not in ("c", "m") or o[1][1] or depth > 6:
            return ("val", o)
        d = self.single_def(o[1][0])
        if d is None:
            return ("val", o)
        bb, idx, _, kind, payload = d
        if kind == "call":
            return ("call", payload)
        rv = payload
        if rv[0] == "bin":
            return ("bin", rv[1], rv[2], rv[3], (bb, idx))
        if rv[0] == "un" and rv[1] == "Not":
            return ("not", self.describe_operand(rv[2], depth + 1))
        if rv[0] == "disc":
            return ("disc", rv[1], (bb, idx))
        if rv[0] == "use":
            return self.describe_operand(rv[1], depth + 1)
        if rv[0] == "cast":
            return self.describe_operand(rv[2], depth + 1)
        return ("val", o)


class Program:
    def __init__(self, facts_dir):
        self.facts_dir = facts_dir
        self.fns = {}
        self.fn_multi = defaultdict(list)
        self.adts = {}
        self.impls = []
        self.consts = {}
        self.meta = {}
        for f in sorted(glob.glob(os.path.join(facts_dir, "*-lib-*.jsonl")) + glob.glob(os.path.join(facts_dir, "*-bin-*.jsonl"))):
            base = os.path.basename(f)
            crate = base.split("-")[0]
            ctype = base.split("-")[1]
            with open(f) as fh:
                for line in fh:
                    r = json.loads(line)
                    k = r["k"]
                    if k == "fn":
                        fn = Fn(r, crate if ctype == "lib" else crate + "[bin]")
                        self.fn_multi[fn.name].append(fn)
                        self.fns.setdefault(fn.name, fn)
                    elif k == "adt":
                        r["crate"] = crate
                        self.adts.setdefault(r["name"], r)
                    elif k == "impl":
                        r["crate"] = crate
                        self.impls.append(r)
                    elif k == "const":
                        self.consts[r["name"]] = r["value"]
                    elif k == "meta":
                        self.meta[(r["crate"], r["ctype"])] = r
        self._callers = None
        self._trait_impl_methods = None
        self._children = None
        self._must = {}

    # ------------------------------------------------------------ lookup
    def fn(self, name):
        return self.fns.get(name)

    def need(self, name):
        f = self.fns.get(name)
        if f is None:
            raise AnchorMissing(name)
        return f

    def need_role(self, name, role, what):
        """anchor lookup that survives a pure rename: the function called `name`, or — if no such function exists —
        the unique workspace function satisfying `role(fn)`; fails closed (AnchorMissing) otherwise"""
        f = self.fns.get(name)
        if f is not None:
            return f
        cands = [g for lst in self.fn_multi.values() for g in lst if g.kind != "closure" and not g.crate.endswith("[bin]") and role(g)]
        if len(cands) == 1:
            return cands[0]
        raise AnchorMissing(f"{name} (and {len(cands)} functions match its role: {what})")

    def find(self, suffix, crate=None):
        """functions whose name equals or ends with ::suffix"""
        out = []
        for n, lst in self.fn_multi.items():
            if n == suffix or n.endswith("::" + suffix):
                for f in lst:
                    if crate is None or f.crate == crate:
                        out.append(f)
        return out

    def lib_fns(self, crates=None):
        for lst in self.fn_multi.values():
            for f in lst:
                if f.crate.endswith("[bin]"):
                    continue
                if crates is None or f.crate in crates:
                    yield f

    def children(self, fn):
        """closures (transitively) defined inside fn"""
        if self._children is None:
            ch = defaultdict(list)
            for lst in self.fn_multi.values():
                for f in lst:
                    if f.kind == "closure" and f.parent:
                        ch[f.parent].append(f)
            self._children = ch
        out = []
        work = [fn.name]
        while work:
            n = work.pop()
            for c in self._children.get(n, ()):
                out.append(c)
                work.append(c.name)
        return out

    def region(self, fn):
        """fn plus every closure nested in it"""
        return [fn] + self.children(fn)

    # ------------------------------------------------------------ call graph
    @property
    def trait_impl_methods(self):
        """'Trait::method' declared path -> list of impl method names"""
        if self._trait_impl_methods is None:
            m = defaultdict(list)
            for im in self.impls:
                if im["trait"]:
                    for meth in im["methods"]:
                        mname = meth.rsplit("::", 1)[1]
                        m[im["trait"] + "::" + mname].append(meth)
            self._trait_impl_methods = m
        return self._trait_impl_methods

    def callees(self, fn, dyn_fanout=True):
        """names of functions fn may call directly: resolved callees, closures it creates, function
        references it mentions, and (for unresolved trait-method calls) every local impl."""
        out = set()
        for c in fn.calls:
            out.add(c.p)
            if not c.resolved and dyn_fanout:
                for m in self.trait_impl_methods.get(c.d, ()):
                    out.add(m)
        for _, _, name, _ in fn.closures_created():
            out.add(name)
        for i, j, s in fn.assigns():
            for o in _rv_operands(s[2]):
                if o[0] == "fn":
                    out.add(o[1])
        for c in fn.calls:
            for a in c.args:
                if a[0] == "fn":
                    out.add(a[1])
        return out

    @property
    def callers(self):
        if self._callers is None:
            cs = defaultdict(set)
            for lst in self.fn_multi.values():
                for f in lst:
                    for c in self.callees(f):
                        cs[c].add(f.name)
            self._callers = cs
        return self._callers

    def direct_callers(self, name_suffix):
        """(caller Fn, Call) for every resolved call site whose callee matches"""
        out = []
        for lst in self.fn_multi.values():
            for f in lst:
                for c in f.calls:
                    if c.is_(name_suffix):
                        out.append((f, c))
        return out

    def reachable_from(self, fn, depth=6, dyn_fanout=True, stop=None):
        """names reachable from fn through <= depth call edges (workspace-local bodies followed)"""
        seen = {fn.name: 0}
        frontier = [fn.name]
        edges = {}
        for d in range(1, depth + 1):
            nxt = []
            for n in frontier:
                f = self.fns.get(n)
                if f is None:
                    continue
                for c in self.callees(f, dyn_fanout):
                    if stop and stop(c):
                        continue
                    if c not in seen:
                        seen[c] = d
                        edges[c] = n
                        nxt.append(c)
            frontier = nxt
        return seen, edges

    def chain(self, edges, target):
        out = [target]
        while out[-1] in edges:
            out.append(edges[out[-1]])
        return list(reversed(out))

    # ------------------------------------------------------------ must-call summaries
    def must_call(self, fn, pred, depth=3, _stack=None):
        """every normal-return path of fn passes a call satisfying pred(Call), directly or through a
        callee that itself must."""
        key = (fn.name, id(pred), depth)
        if key in self._must:
            return self._must[key]
        if _stack is None:
            _stack = set()
        if fn.name in _stack:
            return False
        _stack = _stack | {fn.name}
        good = set()
        for c in fn.calls:
            if pred(c):
                good.add(c.bb)
            elif depth > 0:
                g = self.fns.get(c.p)
                if g is not None and self.must_call(g, pred, depth - 1, _stack):
                    good.add(c.bb)
        res = False
        if good:
            # entry must be unable to reach a return while avoiding the good blocks
            if 0 in good:
                res = True
            else:
                r = fn.reach_avoiding_from_entry(good)
                res = not any(fn.term(b)[0] == "ret" for b in r)
        self._must[key] = res
        return res


def _reach_avoiding_from_entry(self, avoid):
    r = {0}
    stack = [0]
    while stack:
        x = stack.pop()
        for s in self.succ[x]:
            if s in r or s in avoid:
                continue
            r.add(s)
            stack.append(s)
    return r


Fn.reach_avoiding_from_entry = _reach_avoiding_from_entry


def _rv_operands(rv):
    k = rv[0]
    if k in ("use", "repeat"):
        return [rv[1]]
    if k == "cast":
        return [rv[2]]
    if k == "bin":
        return [rv[2], rv[3]]
    if k == "un":
        return [rv[2]]
    if k == "agg":
        return rv[4]
    return []


def rv_operands(rv):
    return _rv_operands(rv)


class AnchorMissing(Exception):
    pass


def load(facts_dir):
    return Program(facts_dir)


def _load_pickled(facts_dir):
    pk = os.path.join(facts_dir, "program.pickle")
    if os.path.exists(pk):
        try:
            with open(pk, "rb") as fh:
                return pickle.load(fh)
        except Exception:
            pass
    p = Program(facts_dir)
    try:
        tmp = pk + ".%d" % os.getpid()
        with open(tmp, "wb") as fh:
            pickle.dump(p, fh, protocol=pickle.HIGHEST_PROTOCOL)
        os.replace(tmp, pk)
    except Exception:
        pass
    return p
