"""C09 — bad input is rejected cleanly: no partial effect of a command rejected before execution.

Decides (structural): the validate-before-commit discipline of the pre-execution pipeline
(EGraph::resolve_command: desugar -> typecheck -> remove globals -> shadowing -> term encoding).
  R-ATOMIC  interprocedural effect analysis: a write to declaration state (commit) that can be followed,
            within the same pipeline function, by an error exit that is not compensated, is a violation
            instance; expected instances are listed as known findings, anything else is reported.
"No input panics" is NOT claimed (an inventory of unwraps would alarm on harmless additions).
"""
from collections import defaultdict

from ..util import _head, guards

EXPLANATION = (
    "Static clause of C09 decided on MIR: in every function reachable from EGraph::resolve_command (excluding execution), no "
    "write to declaration state (type tables, function/ruleset/name tables, parser tables, proof-encoding tables, backend "
    "registrations) is followed by an uncompensated error exit of the same function, except the listed known findings. "
    "Not decided: absence of panics over the input space; consistency after a failing execution is C04."
)

DECL = {
    "egglog::typechecking::TypeInfo": {"sorts", "func_types", "primitives", "global_sorts", "non_unionable_sorts", "mksorts"},
    "egglog::EGraph": {"functions", "rulesets", "commands"},
    "egglog::ast::check_shadowing::Names": {"seen", "global_aliases"},
    "egglog::proofs::proof_encoding::EncodingState": {"uf_parent", "uf_function", "proof_func_parent", "container_rebuild_name",
                                                      "container_rebuild_proof_name", "merge_current", "proof_names"},
    "egglog::ast::parse::Parser": {"commands", "actions", "exprs", "user_defined"},
}
BACKEND_PREFIXES = ("add_", "register_", "new_panic", "new_rule")
ROOT = "egglog::EGraph::resolve_command"
EXCLUDE = {"egglog::EGraph::run_command"}


def short(t):
    return t.rsplit("::", 1)[-1]


def place_decl_fields(prog, f, place):
    """(ADT, field) declaration fields touched by a place expression"""
    out = []
    cur = _head(f.locals[place[0]])
    variant = None
    for e in place[1]:
        if isinstance(e, str):
            continue
        if e[0] == "d":
            variant = e[1]
            continue
        if e[0] != "f":
            break
        if cur in DECL and e[2] in DECL[cur]:
            out.append((cur, e[2]))
        adt = prog.adts.get(cur)
        if adt is None:
            break
        vs = adt["variants"]
        v = next((x for x in vs if x["name"] == variant), None) if variant else vs[0]
        variant = None
        if v is None:
            break
        fd = next((x for x in v["fields"] if x["name"] == e[2]), None)
        if fd is None:
            break
        cur = _head(fd["ty"])
    return out


MUTATORS = {"insert", "insert_full", "insert_unique", "or_insert", "or_insert_with", "or_default", "push", "push_back", "extend", "remove", "swap_remove",
            "shift_remove", "clear", "retain", "append", "truncate", "pop", "take", "replace", "drain", "entry_ref", "insert_entry"}
VIA = ("::entry", "::get_mut", "::iter_mut", "::values_mut", "::unwrap", "::or_default", "::as_mut", "::get_or_insert_with")
OPAQUE = ("Clone>::clone", "Clone::clone", "ToOwned>::to_owned")


def _rooted_decl(prog, f, operand, depth=0):
    """declaration fields the (mutable) receiver operand points into, rooted at a *parameter or captured variable*
    of f (never a clone); follows entry()/get_mut()-style accessors to their receiver"""
    out = set()
    if depth > 3 or operand[0] not in ("c", "m"):
        return out
    # direct: place rooted at a param with decl fields on the way
    # walk definitions: ref/rawptr places
    seen = set()
    work = [operand[1]]
    while work:
        pl = work.pop()
        key = (pl[0], json_key(pl[1]))
        if key in seen:
            continue
        seen.add(key)
        flds = place_decl_fields(prog, f, pl)
        if flds:
            # rooted at a parameter (self / &mut TypeInfo / captured env), not at a local clone
            at = f.origins([pl[0], []], opaque=OPAQUE)
            if any(a[0] == "param" for a in at) or 1 <= pl[0] <= f.argc:
                out |= set(flds)
        for (bb, idx, dproj, kind, payload) in f.defs.get(pl[0], []):
            if dproj:
                continue
            if kind == "a":
                rv = payload
                if rv[0] in ("ref", "rawptr"):
                    work.append(rv[2])
                elif rv[0] == "use" and rv[1][0] in ("c", "m"):
                    work.append(rv[1][1])
                elif rv[0] == "cast" and rv[2][0] in ("c", "m"):
                    work.append(rv[2][1])
            else:
                c = payload
                if c.args and (any(c.p.endswith(v) for v in VIA) or c.p.endswith(("DerefMut>::deref_mut", "IndexMut>::index_mut"))):
                    out |= _rooted_decl(prog, f, c.args[0], depth + 1)
    return out


def json_key(pj):
    return tuple(tuple(e) if not isinstance(e, str) else e for e in pj)


def direct_commits(prog, f):
    """list of (bb, idx, (ADT, field)): mutating container calls / stores whose target is a declaration field of self"""
    out = []
    for c in f.calls:
        sh = short(c.p)
        if sh in MUTATORS and c.args and c.args[0][0] in ("c", "m"):
            recv_ty = f.locals[c.args[0][1][0]]
            if not (recv_ty.startswith("&mut") or "Entry" in recv_ty or recv_ty.startswith("hashbrown") or recv_ty.startswith("indexmap")):
                continue
            for df in _rooted_decl(prog, f, c.args[0]):
                out.append((c.bb, 10 ** 6, df))
        if c.p.startswith("egglog_bridge::EGraph::") and sh.startswith(BACKEND_PREFIXES) and c.args and c.args[0][0] in ("c", "m"):
            if f.locals[c.args[0][1][0]].startswith("&mut"):
                out.append((c.bb, 10 ** 6, ("egglog_bridge::EGraph", "backend:" + sh)))
    # plain stores into a declaration field (self.x.y = v)
    for i, j, s in f.assigns():
        pl = s[1]
        if not [e for e in pl[1] if not isinstance(e, str)]:
            continue
        flds = place_decl_fields(prog, f, pl)
        if flds:
            at = f.origins([pl[0], []], opaque=OPAQUE)
            if any(a[0] == "param" for a in at) or 1 <= pl[0] <= f.argc:
                for df in flds:
                    out.append((i, j, df))
    return out


class Effects:
    def __init__(self, prog):
        self.prog = prog
        self.scope = self._scope()
        self.direct = {n: direct_commits(prog, prog.fns[n]) for n in self.scope}
        self.summ = {n: {df for (_, _, df) in self.direct[n]} for n in self.scope}
        changed = True
        while changed:
            changed = False
            for n in self.scope:
                f = prog.fns[n]
                acc = set(self.summ[n])
                for c in prog.callees(f, dyn_fanout=False):
                    if c in self.summ:
                        acc |= self.summ[c]
                if acc != self.summ[n]:
                    self.summ[n] = acc
                    changed = True

    def real_fns(self):
        """functions that can be entered with the engine's real state: the root, and callees that receive a
        &mut argument rooted at a real caller's own parameters (a local clone handed to a callee makes the
        callee's writes harmless)"""
        prog = self.prog
        real = {ROOT}
        work = [ROOT]
        while work:
            n = work.pop()
            f = prog.fns.get(n)
            if f is None:
                continue
            for c in f.calls:
                if c.p not in self.scope or c.p in real:
                    continue
                muts = [a for a in c.args if a[0] in ("c", "m") and f.locals[a[1][0]].startswith("&mut")]
                if muts and not any(any(x[0] == "param" for x in f.origins(a, opaque=OPAQUE)) for a in muts):
                    continue
                real.add(c.p)
                work.append(c.p)
            for (bi, bj, name, ops) in f.closures_created():
                if name in self.scope and name not in real:
                    real.add(name)
                    work.append(name)
        return real

    def _scope(self):
        prog = self.prog
        root = prog.need(ROOT)
        seen = {root.name}
        work = [root.name]
        while work:
            n = work.pop()
            f = prog.fns.get(n)
            if f is None:
                continue
            for c in prog.callees(f, dyn_fanout=False):
                if c in seen or c in EXCLUDE or c not in prog.fns:
                    continue
                g = prog.fns[c]
                if not g.crate.startswith("egglog") or g.crate in ("egglog_core_relations", "egglog_concurrency", "egglog_union_find", "egglog_numeric_id"):
                    continue
                seen.add(c)
                work.append(c)
        return seen


def error_exits(f):
    """list of (bb, kind, source-call-bb or None)"""
    out = []
    if not f.locals[0].startswith("core::result::Result"):
        return out
    for c in f.calls:
        if c.d.endswith("FromResidual::from_residual"):
            src = None
            for a in f.origins(c.args[0]):
                if a[0] == "call":
                    src = a[2]
            out.append((c.bb, "?", src))
    for i, j, s in f.assigns():
        if s[1] == [0, []] and s[2][0] == "agg" and s[2][2] == "core::result::Result" and s[2][3] == "Err":
            out.append((i, "Err", None))
        elif s[1] == [0, []] and s[2][0] == "use" and s[2][1][0] in ("c", "m"):
            # `let r = callee(..); ...; r` : a callee's Result returned as a plain value
            at = f.origins(s[2][1])
            srcs = [a for a in at if a[0] == "call" and not a[3]]
            if srcs and len(srcs) == len(at):
                for a in srcs:
                    c = f.call_at(a[2])
                    if c is not None and c.dest != [0, []] and f.locals[c.dest[0]].startswith("core::result::Result"):
                        out.append((i, "ret", a[2]))
    return out


def check_atomic(chk, prog):
    R = chk.rule("R-ATOMIC", "in functions reachable from EGraph::resolve_command (execution excluded): a write to declaration state (TypeInfo tables, EGraph.functions/rulesets/commands, "
                 "Names, EncodingState tables, Parser tables, backend registrations), directly or through a callee, must not be followed by a reachable error exit of the same function "
                 "unless a later write to the same field on the way compensates it")
    eff = Effects(prog)
    vindex = {}
    for an, ad in prog.adts.items():
        if ad["kind"] == "enum":
            for i, v in enumerate(ad["variants"]):
                vindex[(an, v["name"])] = i
    for n in eff.scope:
        prog.fns[n].__dict__["_variant_index"] = vindex
    chk.floor(R, len(eff.scope), 150, "functions reachable from resolve_command")
    n_commit_fns = 0
    n_pairs = 0
    real = eff.real_fns()
    for n in sorted(eff.scope):
        f = prog.fns[n]
        if n not in real:
            continue
        events = []  # (bb, idx, label, fields, call_bb or None)
        for (bb, idx, df) in eff.direct[n]:
            events.append((bb, idx, f"{short(df[0])}.{df[1]}", {df}, None))
        for c in f.calls:
            if c.p in eff.summ and eff.summ[c.p] and c.p != n:
                # the state handed to the callee must be the caller's own (a parameter / captured state),
                # not a local clone (`let mut inner = self.clone(); inner.check(..)`)
                muts = [a for a in c.args if a[0] in ("c", "m") and f.locals[a[1][0]].startswith("&mut")]
                if muts and not any(any(x[0] == "param" for x in f.origins(a, opaque=OPAQUE)) for a in muts):
                    continue
                events.append((c.bb, 10 ** 6, "call " + c.p, set(eff.summ[c.p]), c.bb))
        for (bi, bj, name, ops) in f.closures_created():
            if name in eff.summ and eff.summ[name]:
                events.append((bi, bj, "closure " + name, set(eff.summ[name]), None))
        if not events:
            continue
        n_commit_fns += 1
        exits = error_exits(f)
        if not exits:
            chk.ok(R, f"{n}:commits-never-fail-after", f"commits {sorted({e[2] for e in events})[:4]} and has no error exit", f.loc)
            continue
        pairs = {}
        for (bb, idx, label, fields, call_bb) in events:
            reach = f.reach(bb)
            for (xb, kind, src) in exits:
                if src is not None and call_bb is not None and src == call_bb and call_bb not in f.reach(call_bb):
                    continue  # the `?` of the committing call itself: judged inside the callee (unless in a loop:
                    # iteration i commits, iteration i+1 fails)
                after = (xb in reach) or (xb == bb and kind == "?" and src is not None and False)
                if not after:
                    continue
                # compensation: another direct write to one of the same fields strictly between
                comp = False
                for (cb, cidx, df) in eff.direct[n]:
                    if df in fields and (cb, cidx) != (bb, idx) and cb in reach and (xb in f.reach(cb) or cb == xb) and cb != bb:
                        comp = True
                if comp:
                    continue
                if not _feasible(f, bb, xb):
                    continue
                if kind == "ret":
                    # only a failure of a call made after the commit matters
                    if not (src in f.reach(bb)):
                        continue
                fail = "Err-literal" if kind == "Err" else (("? of " if kind == "?" else "returned Err of ") + (f.call_at(src).p if src is not None and f.call_at(src) else "value"))
                key = f"{n}:commit[{label}]->fail[{fail}]"
                pairs.setdefault(key, (label, fail, fields, bb, xb))
        if not pairs:
            chk.ok(R, f"{n}:validate-before-commit", f"no error exit is reachable after a commit ({len(events)} commit events, {len(exits)} error exits)", f.loc)
        for key, (label, fail, fields, bb, xb) in sorted(pairs.items()):
            n_pairs += 1
            fl = sorted(f"{short(a)}.{b}" for a, b in fields)
            chk.bad(R, key, f"rejected command can leave a partial effect: {label} (writes {fl[:5]}{'...' if len(fl) > 5 else ''}) can be followed by error exit [{fail}] "
                    f"in {n} (commit at line {_line(f, bb)}, exit at line {_line(f, xb)})", f.loc)
    chk.floor(R, n_commit_fns, 10, "pipeline functions that commit declaration state")
    chk.extra["atomic_pairs"] = n_pairs


def check_atomic_decl(chk, prog):
    """declarations that are committed during execution (a rule joins its ruleset, a function joins the function table): the same
    validate-before-commit discipline, per function"""
    R = chk.rule("R-ATOMIC-DECL", "in the functions of crate egglog that add to EGraph.rulesets or EGraph.functions while a command executes (add_rule, declare_function, ...): the write "
                 "to the declaration map is not followed by a reachable error exit of the same function — in particular the duplicate-name rejection tests the map before writing "
                 "it (entry/contains), it does not insert first and complain afterwards")
    n = 0
    for f in prog.lib_fns(["egglog"]):
        if f.kind == "closure" or not f.name.startswith("egglog::EGraph::") or not f.locals[0].startswith("core::result::Result"):
            continue
        commits = [(bb, idx, df) for (bb, idx, df) in direct_commits(prog, f) if df[0] == "egglog::EGraph" and df[1] in ("rulesets", "functions")]
        if not commits:
            continue
        # only functions that ADD a declaration: they build the entry they store (a rule id from the backend / a Function record);
        # functions that take the map out and put it back, or tear a temporary ruleset down, are not declarations
        adds = any(c.p.endswith(("EGraph::new_rule", "RuleBuilder::build", "BackendRule::build", "EGraph::add_table")) or c.p.endswith("::build") and "Rule" in c.p for c in f.calls) \
            and not any(c.p.endswith(("mem::take", "::swap_remove", "::shift_remove")) for c in f.calls)
        if not adds:
            continue
        n += 1
        exits = error_exits(f)
        bad = []
        for (bb, idx, df) in commits:
            for (xb, kind, src) in exits:
                if xb in f.reach(bb) and _feasible(f, bb, xb):
                    # a later write to the same field on the way compensates (remove on the error path)
                    comp = any(df2 == df and cb != bb and cb in f.reach(bb) and (xb in f.reach(cb) or cb == xb) for (cb, cidx, df2) in commits)
                    if not comp:
                        bad.append((df[1], _line(f, bb), _line(f, xb)))
        chk.judge(not bad, R, f"{f.name}:commit-then-fail", "the declaration map is written only after the last check that can reject the command",
                  f"{f.name.rsplit('::', 1)[-1]} writes EGraph.{bad[0][0] if bad else ''} (line {bad[0][1] if bad else ''}) and can still return an error afterwards "
                  f"(line {bad[0][2] if bad else ''}): the rejected command has already replaced / added the entry", f.loc)
    chk.floor(R, n, 2, "execution-phase declaration functions (add_rule, declare_function)")


def _base_local(f, place):
    """follow `&local` single definitions: the local whose discriminant is really tested"""
    if [e for e in place[1] if not isinstance(e, str)]:
        return None
    l = place[0]
    for _ in range(4):
        d = f.single_def(l)
        if d is None or d[3] != "a":
            return l
        rv = d[4]
        if rv[0] in ("ref", "rawptr") and not [e for e in rv[2][1] if not isinstance(e, str)]:
            l = rv[2][0]
            continue
        if rv[0] == "use" and rv[1][0] in ("c", "m") and not [e for e in rv[1][1][1] if not isinstance(e, str)]:
            l = rv[1][1][0]
            continue
        return l
    return l


def _feasible(f, commit_bb, exit_bb):
    """prune (commit, exit) pairs that need a discriminant value the commit's path cannot produce: the
    exit is must-guarded by `variant(L) in K` while every definition of L lying on a path through the commit
    builds an enum variant outside K (match arms that each build their own result value)"""
    vindex = f.__dict__.get("_variant_index", {})
    for g in guards(f, exit_bb):
        if "variant" not in g:
            continue
        L = _base_local(f, g["place"])
        if L is None:
            continue
        defs = [(bb, idx, kind, payload) for (bb, idx, dproj, kind, payload) in f.defs.get(L, []) if not dproj]
        if not defs or not all(kind == "a" and payload[0] == "agg" and payload[1] == "adt" for (_, _, kind, payload) in defs):
            continue
        reach = f.reach(commit_bb) | {commit_bb}
        on_path = [d for d in defs if d[0] in reach or f.dominates(d[0], commit_bb)]
        if not on_path:
            continue
        feas = False
        for (bb, idx, kind, payload) in on_path:
            vi = vindex.get((payload[2], payload[3]))
            if vi is None:
                feas = True
                break
            idxs = g["variant"]
            if str(vi) in idxs or (idxs == ["otherwise"] and str(vi) not in g.get("all", [])):
                feas = True
                break
        if not feas:
            return False
    return True


def _line(f, bb):
    t = f.term(bb)
    if t[0] == "call":
        return t[6]
    for s in f.stmts(bb):
        if s[0] == "a":
            return s[3]
    return f.line


def run(chk, prog, tier):
    chk.explanation = EXPLANATION
    chk.assumptions = [
        "symbol_gen (fresh names) is exempt: not observable",
        "a later write to the same field on the error path counts as compensation (weak: it is not checked to undo the first write)",
        "returning a callee's Err as a plain value (no `?`) after a commit is not seen as an error exit",
    ]
    check_atomic(chk, prog)
    check_atomic_decl(chk, prog)
