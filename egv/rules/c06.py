"""C06 — results do not depend on the number of threads.

Decides (sibling cross-check, Engler/Min style): every parallel variant performs the same obligations as its serial
sibling, which is the only part visible without running threads.
  R-SIBLINGS     frozen table of serial/parallel pairs: same fields of the table written, merge sites satisfy
                 R-MERGE-STORED and R-INSERT-AFTER-PROBE (C05), re-inserted rows are re-stamped (C03 R-RESTAMP),
                 removal staged with every re-insert, same scan extent (R-SCAN-EXTENT), container variants agree (C14)
  R-CUTOFF-PURE  the parallel_heuristics predicates are only ever used as branch conditions
"""
from . import c05, c03, c14, c16, extent_common

EXPLANATION = (
    "Static clause of C06 decided on MIR: each parallel implementation writes the same state and meets the same per-site "
    "obligations as its serial sibling (merge output stored, probe before insert, re-stamp and staged removal on rebuild, "
    "generation/offsets/stale bookkeeping, same scan extent), and the size cut-offs that choose between siblings never flow "
    "into data. Not decided: isomorphism of results across thread counts and OS schedules."
)

SWT = "egglog_core_relations::table::SortedWritesTable"
PAIRS = [
    ("serial_insert", "parallel_insert", "pending rows merged into the table"),
    ("serial_delete", "parallel_delete", "pending removals applied"),
    ("rehash", "parallel_rehash", "compaction of stale rows"),
]


def check_siblings(chk, prog):
    R = chk.rule("R-SIBLINGS", "for each serial/parallel pair of SortedWritesTable the two variants write the same fields of the table and both return a computed `changed`; "
                 "every rebuild body that stages an insert also stages the removal of the old key; the dispatching function reaches both variants")
    for a, b, what in PAIRS:
        fa, fb = prog.need(f"{SWT}::{a}"), prog.need(f"{SWT}::{b}")
        wa, wb = c16.fields_touched(prog, SWT, fa), c16.fields_touched(prog, SWT, fb)
        chk.judge(wa == wb and bool(wa), R, f"{SWT}::{a}|{b}:fields", f"{what}: both write {sorted(wa)}",
                  f"{what}: serial writes {sorted(wa)} but parallel writes {sorted(wb)} (missing in parallel: {sorted(wa - wb)}, extra: {sorted(wb - wa)})", fb.loc)
        if fa.locals[0] == "bool":
            ra, rb = fa.origins([0, []], outargs=True), fb.origins([0, []], outargs=True)
            ca = any(x[0] != "const" for x in ra) or len({x[1] for x in ra}) > 1
            cb = any(x[0] != "const" for x in rb) or len({x[1] for x in rb}) > 1
            chk.judge(ca and cb, R, f"{SWT}::{a}|{b}:changed", "both report a computed `changed`",
                      "one variant always reports a constant instead of whether the table changed", fb.loc)
        # dispatcher
        callers_a = {g.root or g.name for g, c in prog.direct_callers(f"{SWT}::{a}")}
        callers_b = {g.root or g.name for g, c in prog.direct_callers(f"{SWT}::{b}")}
        chk.judge(bool(callers_a & callers_b), R, f"{SWT}::{a}|{b}:dispatch", f"one dispatcher chooses between them ({sorted(callers_a & callers_b)})",
                  "no common dispatcher calls both variants", fa.loc)
    # rebuild bodies: stage_remove accompanies stage_insert
    n = 0
    for g in prog.lib_fns(["egglog_core_relations"]):
        root = g.root or g.name
        if not root.startswith(SWT + "::"):
            continue
        ins = [c for c in g.calls if c.p.endswith("MutationBuffer::stage_insert")]
        if not ins:
            continue
        n += 1
        rem = [c for c in g.calls if c.p.endswith("MutationBuffer::stage_remove")]
        chk.judge(bool(rem), R, f"{root}:stage_remove-with-insert{'@closure' if g.kind == 'closure' else ''}", "old key removed when the canonicalised row is re-inserted",
                  "a rebuild body re-inserts rows without staging the removal of the old key (duplicate live rows for one logical row)", g.loc)
    chk.floor(R, n, 5, "rebuild bodies staging inserts")


def _pure_predicate(prog, name):
    """a local helper `fn(usize.., bool..) -> bool` without calls: a heuristic predicate like incremental_rebuild"""
    g = prog.fns.get(name)
    if g is None or g.locals[0] != "bool":
        return False
    if any(t not in ("usize", "bool", "u64", "u32") for t in g.locals[1:g.argc + 1]):
        return False
    return not [c for c in g.calls if not c.p.startswith("core::panicking")]


def check_cutoff_pure(chk, prog):
    R = chk.rule("R-CUTOFF-PURE", "results of the parallel_heuristics predicates are only used as branch conditions (through copies / negation): never stored, passed on, or combined into data")
    n = 0
    for f in prog.lib_fns(["egglog_core_relations", "egglog_bridge", "egglog"]):
        for c in f.calls:
            if not c.p.startswith("egglog_core_relations::parallel_heuristics::") or c.dest[1]:
                continue
            if f.name.startswith("egglog_core_relations::parallel_heuristics::"):
                continue
            if f.locals[c.dest[0]] != "bool":
                continue
            n += 1
            bad = []
            seen = set()
            work = [c.dest[0]]
            while work:
                l = work.pop()
                if l in seen:
                    continue
                seen.add(l)
                for i, j, s in f.assigns():
                    from ..facts import rv_operands
                    ops = rv_operands(s[2])
                    if not any(o[0] in ("c", "m") and o[1][0] == l for o in ops):
                        if s[2][0] in ("ref",) and s[2][2][0] == l:
                            bad.append(f"borrowed at line {s[3]}")
                        continue
                    if s[1][1]:
                        bad.append(f"stored into a field/place at line {s[3]}")
                    elif s[2][0] == "use" or (s[2][0] == "un" and s[2][1] == "Not"):
                        work.append(s[1][0])
                    elif s[2][0] == "bin" and s[2][1] in ("BitAnd", "BitOr", "Eq", "Ne", "BitXor") and f.locals[s[1][0]] == "bool":
                        work.append(s[1][0])
                    else:
                        bad.append(f"used in {s[2][0]} at line {s[3]}")
                for c2 in f.calls:
                    if any(a[0] in ("c", "m") and a[1][0] == l for a in c2.args):
                        if _pure_predicate(prog, c2.p) and not c2.dest[1]:
                            work.append(c2.dest[0])   # its result is again only a branch condition
                        else:
                            bad.append(f"passed to {c2.p.rsplit('::', 1)[-1]} at line {c2.line}")
                if l == 0:
                    bad.append("returned")
            chk.judge(not bad, R, f"{f.root or f.name}:{c.p.rsplit('::', 1)[-1]}", "cut-off predicate only steers a branch",
                      f"a size cut-off leaks into data: {bad[:3]}", c.loc)
    chk.floor(R, n, 8, "call sites of parallel_heuristics predicates")


def run(chk, prog, tier):
    chk.explanation = EXPLANATION
    chk.assumptions = ["rustc nightly MIR construction", "thread-pool scope semantics are C19's"]
    check_siblings(chk, prog)
    c05.check_merge_stored(chk, prog)
    c05.check_insert_after_probe(chk, prog)
    c05.check_change_reported(chk, prog)
    c03.check_restamp(chk, prog)
    extent_common.check_scan_extent(chk, prog)
    c16.check_stale_count(chk, prog)
    c14.check_siblings(chk, prog)
    check_cutoff_pure(chk, prog)
    # serial and parallel index construction / rebuild scans consume every batch alike
    from . import scan_common
    scan_common.check_scan_batches(chk, prog, only=lambda f: "hash_index" in f.name or "table::SortedWritesTable" in f.name or "containers" in f.name, floor=6)
