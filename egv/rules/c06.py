"""C06 — results do not depend on the number of threads.

Decides (sibling cross-check, Engler/Min style): every parallel variant performs the same obligations as its serial
sibling, which is the only part visible without running threads.
  R-SIBLINGS     frozen table of serial/parallel pairs: same fields of the table written, merge sites satisfy
                 R-MERGE-STORED and R-INSERT-AFTER-PROBE (C05), re-inserted rows are re-stamped (C03 R-RESTAMP),
                 removal staged with every re-insert, same scan extent (R-SCAN-EXTENT), container variants agree (C14)
  R-CUTOFF-PURE  the parallel_heuristics predicates are only ever used as branch conditions
"""
from . import c05, c03, c14, c16, extent_common

EXPLANATION = (
    "Static clause of C06 decided on MIR: each parallel implementation writes the same state and meets the same per-site "
    "obligations as its serial sibling (merge output stored, probe before insert, re-stamp and staged removal on rebuild, "
    "generation/offsets/stale bookkeeping, same scan extent), and the size cut-offs that choose between siblings never flow "
    "into data. Not decided: isomorphism of results across thread counts and OS schedules."
)

SWT = "egglog_core_relations::table::SortedWritesTable"
PAIRS = [
    ("serial_insert", "parallel_insert", "pending rows merged into the table"),
    ("serial_delete", "parallel_delete", "pending removals applied"),
    ("rehash", "parallel_rehash", "compaction of stale rows"),
]


def check_siblings(chk, prog):
    R = chk.rule("R-SIBLINGS", "for each serial/parallel pair of SortedWritesTable the two variants write the same fields of the table and both return a computed `changed`; "
                 "every rebuild body that stages an insert also stages the removal of the old key; the dispatching function reaches both variants")
    for a, b, what in PAIRS:
        fa, fb = prog.need(f"{SWT}::{a}"), prog.need(f"{SWT}::{b}")
        wa, wb = c16.fields_touched(prog, SWT, fa), c16.fields_touched(prog, SWT, fb)
        chk.judge(wa == wb and bool(wa), R, f"{SWT}::{a}|{b}:fields", f"{what}: both write {sorted(wa)}",
                  f"{what}: serial writes {sorted(wa)} but parallel writes {sorted(wb)} (missing in parallel: {sorted(wa - wb)}, extra: {sorted(wb - wa)})", fb.loc)
        if fa.locals[0] == "bool":
            ra, rb = fa.origins([0, []], outargs=True), fb.origins([0, []], outargs=True)
            ca = any(x[0] != "const" for x in ra) or len({x[1] for x in ra}) > 1
            cb = any(x[0] != "const" for x in rb) or len({x[1] for x in rb}) > 1
            chk.judge(ca and cb, R, f"{SWT}::{a}|{b}:changed", "both report a computed `changed`",
                      "one variant always reports a constant instead of whether the table changed", fb.loc)
        # dispatcher
        callers_a = {g.root or g.name for g, c in prog.direct_callers(f"{SWT}::{a}")}
        callers_b = {g.root or g.name for g, c in prog.direct_callers(f"{SWT}::{b}")}
        chk.judge(bool(callers_a & callers_b), R, f"{SWT}::{a}|{b}:dispatch", f"one dispatcher chooses between them ({sorted(callers_a & callers_b)})",
                  "no common dispatcher calls both variants", fa.loc)
    # rebuild bodies: stage_remove accompanies stage_insert
    n = 0
    for g in prog.lib_fns(["egglog_core_relations"]):
        root = g.root or g.name
        if not root.startswith(SWT + "::"):
            continue
        ins = [c for c in g.calls if c.p.endswith("MutationBuffer::stage_insert")]
        if not ins:
            continue
        n += 1
        rem = [c for c in g.calls if c.p.endswith("MutationBuffer::stage_remove")]
        chk.judge(bool(rem), R, f"{root}:stage_remove-with-insert{'@closure' if g.kind == 'closure' else ''}", "old key removed when the canonicalised row is re-inserted",
                  "a rebuild body re-inserts rows without staging the removal of the old key (duplicate live rows for one logical row)", g.loc)
    chk.floor(R, n, 5, "rebuild bodies staging inserts")


def _pure_predicate(prog, name):
    """a local helper `fn(usize.., bool..) -> bool` without calls: a heuristic predicate like incremental_rebuild"""
    g = prog.fns.get(name)
    if g is None or g.locals[0] != "bool":
        return False
    if any(t not in ("usize", "bool", "u64", "u32") for t in g.locals[1:g.argc + 1]):
        return False
    return not [c for c in g.calls if not c.p.startswith("core::panicking")]


def check_cutoff_pure(chk, prog):
    R = chk.rule("R-CUTOFF-PURE", "results of the parallel_heuristics predicates are only used as branch conditions (through copies / negation): never stored, passed on, or combined into data")
    n = 0
    for f in prog.lib_fns(["egglog_core_relations", "egglog_bridge", "egglog"]):
        for c in f.calls:
            if not c.p.startswith("egglog_core_relations::parallel_heuristics::") or c.dest[1]:
                continue
            if f.name.startswith("egglog_core_relations::parallel_heuristics::"):
                continue
            if f.locals[c.dest[0]] != "bool":
                continue
            n += 1
            bad = []
            seen = set()
            work = [c.dest[0]]
            while work:
                l = work.pop()
                if l in seen:
                    continue
                seen.add(l)
                for i, j, s in f.assigns():
                    from ..facts import rv_operands
                    ops = rv_operands(s[2])
                    if not any(o[0] in ("c", "m") and o[1][0] == l for o in ops):
                        if s[2][0] in ("ref",) and s[2][2][0] == l:
                            bad.append(f"borrowed at line {s[3]}")
                        continue
                    if s[1][1]:
                        bad.append(f"stored into a field/place at line {s[3]}")
                    elif s[2][0] == "use" or (s[2][0] == "un" and s[2][1] == "Not"):
                        work.append(s[1][0])
                    elif s[2][0] == "bin" and s[2][1] in ("BitAnd", "BitOr", "Eq", "Ne", "BitXor") and f.locals[s[1][0]] == "bool":
                        work.append(s[1][0])
                    else:
                        bad.append(f"used in {s[2][0]} at line {s[3]}")
                for c2 in f.calls:
                    if any(a[0] in ("c", "m") and a[1][0] == l for a in c2.args):
                        if _pure_predicate(prog, c2.p) and not c2.dest[1]:
                            work.append(c2.dest[0])   # its result is again only a branch condition
                        else:
                            bad.append(f"passed to {c2.p.rsplit('::', 1)[-1]} at line {c2.line}")
                if l == 0:
                    bad.append("returned")
            chk.judge(not bad, R, f"{f.root or f.name}:{c.p.rsplit('::', 1)[-1]}", "cut-off predicate only steers a branch",
                      f"a size cut-off leaks into data: {bad[:3]}", c.loc)
    chk.floor(R, n, 8, "call sites of parallel_heuristics predicates")


def check_ruleset_siblings(chk, prog):
    """Database::run_rule_set: the serial arm (function body) and the scoped-parallel arm (closure handed to Scope::spawn)
    must meet the same obligations per plan."""
    from .join_common import cross_origins, atom_path
    R = chk.rule("R-RULESET-SIBLINGS", "Database::run_rule_set: the serial arm and the closure spawned per plan in the scoped-parallel arm perform the same steps per plan: a root node is requested for "
                 "every atom and installed with insert_node (a missing root skips the plan); a SinglePlan runs its stages; a DecomposedPlan runs every stage block, stops on an empty "
                 "materialization, installs the block's materialization in binding_info.materializations before the next block, and finally runs the result block; the action buffer is flushed. "
                 "Each step of the frozen list must occur in both arms, and the installation must lie between the block run and the result-block run")
    f = prog.need("egglog_core_relations::free_join::Database::run_rule_set")
    spawned = None
    for h in prog.children(f):
        for c in h.calls:
            if c.p.endswith("Scope::spawn"):
                for a in h.origins(c.args[1]):
                    if a[0] == "closure":
                        g = prog.fns.get(a[1])
                        if g is not None and any(cc.p.endswith("JoinState::root_node") for cc in g.calls):
                            spawned = g
    if spawned is None:
        chk.missing(R, "closure spawned per plan in run_rule_set (calls JoinState::root_node)")
        return

    def steps(root, region):
        out = {}
        for h in region:
            for c in h.calls:
                key = None
                if c.p.endswith("JoinState::root_node"):
                    key = "root_node"
                elif c.p.endswith("BindingInfo::insert_node"):
                    key = "insert_node"
                elif c.p.endswith("JoinState::run_join_stages"):
                    paths = {atom_path(a) for _, a in cross_origins(prog, h, c.args[1]) if atom_path(a)}
                    if any(p[-1:] == ("stages",) for p in paths):
                        key = "run:stages"
                    elif any(p[-1:] == ("result_block",) for p in paths):
                        key = "run:result_block"
                    else:
                        key = "run:block"
                elif c.p.endswith("DenseIdMap::insert") and any(atom_path(a) and "materializations" in atom_path(a) for _, a in cross_origins(prog, h, c.args[0])):
                    key = "install-materialization"
                elif c.p.endswith("::is_empty") and any(a[0] == "call" and atom_path(a) == ("[]",) for _, a in cross_origins(prog, h, c.args[0])):
                    key = "empty-materialization-test"
                elif c.p.endswith("ActionBuffer>::flush") or c.p.endswith("ActionBuffer::flush"):
                    key = "flush"
                if key:
                    out.setdefault(key, []).append((h, c))
        return out
    serial = steps(f, [f] + [h for h in prog.children(f) if not (h is spawned or h.name.startswith(spawned.name + "::")) and not any(c.p.endswith("Scope::spawn") for c in h.calls)])
    par = steps(spawned, prog.region(spawned))
    WANT = ("root_node", "insert_node", "run:stages", "run:block", "empty-materialization-test", "install-materialization", "run:result_block", "flush")
    for arm, st, root in (("serial", serial, f), ("scoped", par, spawned)):
        for w in WANT:
            chk.judge(w in st, R, f"Database::run_rule_set:{arm}:{w}", f"{arm} arm performs step {w}",
                      f"the {arm} arm of run_rule_set lacks step `{w}` that its sibling arm performs", root.loc)
        # ordering inside the arm's own function: install between block test and result run; root before any run
        if all(w in st for w in WANT):
            inst = [(h, c) for (h, c) in st["install-materialization"] if h is root]
            res = [(h, c) for (h, c) in st["run:result_block"] if h is root]
            tst = [(h, c) for (h, c) in st["empty-materialization-test"] if h is root]
            ok = bool(inst) and bool(res) and bool(tst)
            for (_, i) in inst:
                ok = ok and any(r.bb in root.reach(i.bb) for (_, r) in res) and any(root.dominates(t.bb, i.bb) for (_, t) in tst)
                # the installation happens on the non-empty side of the test
            rn = [(h, c) for (h, c) in st["root_node"] if h is root]
            runs = [c for k in ("run:stages", "run:result_block") for (h, c) in st[k] if h is root]
            ok = ok and bool(rn)
            # a missing root skips the plan: no run is reachable from the None arm of root_node's result
            for (_, r) in rn:
                sw = r.target
                t = root.term(sw) if sw is not None else None
                if t and t[0] == "switch":
                    none = [tb for v, tb in t[2] if v == "0"]
                    for nb in none:
                        reach = {nb} | root.reach(nb)
                        # runs of THIS plan: those not separated by the next plan's root_node
                        # (the next plan starts at an iterator step that dominates the root request)
                        nxt = {c.bb for c in root.calls if (c.p.endswith("Iterator>::next") or c.p.endswith("Iterator::next")) and root.dominates(c.bb, r.bb)}
                        r2 = {nb} | root.reach_avoiding([nb], {r.bb} | nxt)
                        ok = ok and not any(c.bb in r2 for c in runs)
            chk.judge(ok, R, f"Database::run_rule_set:{arm}:order", f"{arm} arm: roots before any stage, installation between block run and result block, missing root skips the plan",
                      f"the {arm} arm of run_rule_set orders its steps differently (materialization installed after the result block, stages run without roots, or a plan with an empty root still runs)", root.loc)


def check_index_siblings(chk, prog):
    """hash_index: the row-at-a-time path (add_row / merge_rows) and the sharded parallel path (merge_parallel) of ColumnIndex
    and TupleIndex must build the same subsets."""
    from ..util import guards
    R = chk.rule("R-INDEX-SIBLINGS", "hash_index: (a) every merge_parallel drain that feeds BufferedSubset::add_row_sorted (which requires ascending row ids) first sorts the shard's queue of "
                 "batches by their first row id (sort_by_key / sort_unstable_by_key on the drained vector dominates the drain); (b) ColumnIndex: both the serial add_row and the "
                 "parallel split closure skip a value that already occurred in an earlier covered column of the same row (insertion guarded by `!keys[..i].contains(key)`), so a "
                 "value's subset never holds a row id twice")
    HI = "egglog_core_relations::hash_index::"
    n_drain = 0
    for f in prog.lib_fns(["egglog_core_relations"]):
        root = f.root or f.name
        if "hash_index" not in root or "merge_parallel" not in root:
            continue
        sorted_adds = [c for c in f.calls if c.p.endswith("BufferedSubset::add_row_sorted")]
        drains = [c for c in f.calls if c.p.endswith("Vec::drain")]
        if not sorted_adds or not drains:
            continue
        n_drain += 1
        sorts = [c for c in f.calls if c.p.rsplit("::", 1)[-1] in ("sort_by_key", "sort_unstable_by_key", "sort_by", "sort_unstable_by", "sort", "sort_unstable", "sort_by_cached_key")]
        ok = False
        for d in drains:
            dv = f.origins(d.args[0])
            for sc in sorts:
                if f.dominates(sc.bb, d.bb) and (f.origins(sc.args[0]) & dv):
                    ok = True
        chk.judge(ok, R, f"{root}:sorted-drain", "the shard's batches are sorted by first row id before being folded in",
                  "merge_parallel folds the queued batches into add_row_sorted without sorting them by start row id first: batches arrive in task-completion order, so a value's "
                  "subset ends up unsorted (binary searches and intersections on it silently miss rows)", d.loc)
    chk.floor(R, n_drain, 2, "merge_parallel drains (ColumnIndex, TupleIndex)")
    # (b) column dedup
    n_dedup = 0
    for f in prog.lib_fns(["egglog_core_relations"]):
        root = f.root or f.name
        if "ColumnIndex as" not in root or not (root.endswith("IndexBase>::add_row") or "IndexBase>::merge_parallel" in root):
            continue
        # insertion sites: add_row_sorted in add_row; TaggedRowBuffer::add_row on the per-shard split buffer in merge_parallel's split closure
        sites = [c for c in f.calls if (root.endswith("::add_row") and c.p.endswith("BufferedSubset::add_row_sorted")) or
                 ("merge_parallel" in root and c.p.endswith("TaggedRowBuffer::add_row"))]
        for c in sites:
            n_dedup += 1
            ok = any(g.get("truth") is False and g["desc"][0] == "call" and g["desc"][1].p.endswith("::contains") for g in guards(f, c.bb))
            chk.judge(ok, R, f"{root}:dedup-repeated-value", "a value repeated across the covered columns of a row is recorded once",
                      "a row is added to a value's subset without the `earlier column already had this value` test: the subset holds the row id twice on this path only, "
                      "and the serial and parallel index disagree", c.loc)
    chk.floor(R, n_dedup, 2, "per-value insertion sites of ColumnIndex (add_row, merge_parallel split)")


def run(chk, prog, tier):
    chk.explanation = EXPLANATION
    chk.assumptions = ["rustc nightly MIR construction", "thread-pool scope semantics are C19's"]
    check_siblings(chk, prog)
    c05.check_merge_stored(chk, prog)
    c05.check_insert_after_probe(chk, prog)
    c05.check_change_reported(chk, prog)
    c03.check_restamp(chk, prog)
    extent_common.check_scan_extent(chk, prog)
    extent_common.check_chunk_covers(chk, prog)
    c16.check_stale_count(chk, prog)
    c16.check_stale_counted(chk, prog)
    c16.check_row_retired(chk, prog)
    c14.check_siblings(chk, prog)
    c14.check_container_indexed(chk, prog)
    check_cutoff_pure(chk, prog)
    check_ruleset_siblings(chk, prog)
    check_index_siblings(chk, prog)
    # serial and parallel index construction / rebuild scans consume every batch alike
    from . import scan_common
    scan_common.check_scan_batches(chk, prog, only=lambda f: "hash_index" in f.name or "table::SortedWritesTable" in f.name or "containers" in f.name, floor=6)
