"""C13 — subsumed rows stop matching and extracting, forever; deleted rows are gone.

Decides (structural): the subsume flag is carried by every row-rewriting path and consulted by every
consumer the statement names.
  R-SUBSUME-MERGE      merge callback combines both rows' flags with max (SUBSUMED=1 > NOT_SUBSUMED=0) and
                       reports a change when the flag changes
  R-MERGE-STORED       (C05) the merged row — hence the merged flag — is what gets stored
  R-QUERY-SUBSUME      rule bodies constrain the subsume column to NOT_SUBSUMED unless include_subsumed;
                       only check_facts passes a constant `true`
  R-REBUILD-KEEPS-FLAG rebuild rules carry the row's flag into the rewritten row; native rebuild never
                       touches the flag column
  R-SUBSUME-ACTION     the subsume action writes SUBSUMED guarded by insert_if_eq(cur, NOT_SUBSUMED)
  R-SUBSUMED-GUARD     (C07) extraction skips subsumed rows
"""
from ..util import check_selects, whole_defs, guards, fmt_atoms
from . import c05, c07

EXPLANATION = (
    "Static clause of C13 decided on MIR: the subsume flag is merged with max on every collision and the merged row is what is "
    "stored; rule bodies exclude subsumed rows unless explicitly asked; rebuild rules and the native rebuild preserve the flag; "
    "the subsume action only ever raises the flag; extraction skips subsumed rows. Not decided: behaviour across all interleavings."
)

BR = "egglog_bridge::"


def const_name(o):
    if o[0] == "k" and o[1].startswith("const "):
        return o[1][6:]
    return None


def check_constants(chk, prog, R):
    s, n = prog.consts.get(BR + "SUBSUMED", ""), prog.consts.get(BR + "NOT_SUBSUMED", "")
    ok = "rep: 1_" in s and "rep: 0_" in n
    chk.judge(ok, R, "egglog_bridge::SUBSUMED>NOT_SUBSUMED", "SUBSUMED = Value(1) > NOT_SUBSUMED = Value(0), so max keeps the flag",
              f"flag constants are SUBSUMED={s!r} NOT_SUBSUMED={n!r}: max would no longer keep the flag", None)


def check_subsume_merge(chk, prog):
    R = chk.rule("R-SUBSUME-MERGE", "combine_subsumed returns the max of its two arguments; the merge callback feeds it cur[subsume_col] and new[subsume_col], "
                 "ORs `changed` with cur != out, and writes the result as RowVals.subsume")
    check_constants(chk, prog, R)
    f = prog.need(BR + "combine_subsumed")
    A, B = {("param", 1, ())}, {("param", 2, ())}
    probs, n = check_selects(f, whole_defs(f, 0), A, B, "max")
    chk.judge(not probs and n > 0, R, BR + "combine_subsumed", "combine_subsumed = max(v1, v2)", "; ".join(probs) or "no max selection", f.loc)
    root = prog.need(BR + "MergeFn::to_callback")
    region = prog.region(root)
    site = None
    for g in region:
        for c in g.calls:
            if c.p == BR + "combine_subsumed":
                site = (g, c)
    if site is None:
        chk.missing(R, "call of combine_subsumed inside MergeFn::to_callback")
        return
    g, c = site

    def row_origin(op):
        """(upvar/param name of the indexed slice, index-callee)"""
        out = set()
        for a in g.origins(op):
            if a[0] == "param" and a[2]:
                nm = g.upvars.get((a[2][0],), a[2][0]) if a[1] == 1 else g.varnames.get(a[1])
                out.add(nm)
        return out

    a0, a1 = row_origin(c.args[0]), row_origin(c.args[1])
    # index operands: both must come from SchemaMath::subsume_col
    idx_ok = True
    for op in c.args:
        l = op[1][0]
        d = g.single_def(l)
        # walk copies to the indexed load
        seen = 0
        while d and d[3] == "a" and d[4][0] == "use" and seen < 4:
            src = d[4][1]
            idxs = [e for e in src[1][1] if not isinstance(e, str) and e[0] == "i"]
            if idxs:
                il = idxs[0][1]
                ia = g.origins([il, []])
                if not all(x[0] == "call" and x[1] == BR + "SchemaMath::subsume_col" for x in ia):
                    idx_ok = False
                break
            d = g.single_def(src[1][0]) if not src[1][1] else None
            seen += 1
        else:
            idx_ok = False
    chk.judge(a0 == {"cur"} and a1 == {"new"} and idx_ok, R, BR + "MergeFn::to_callback:flag-inputs",
              "combine_subsumed(cur[subsume_col], new[subsume_col])",
              f"combine_subsumed is fed {sorted(a0)} / {sorted(a1)} (index from subsume_col: {idx_ok}) instead of the current and the new row's flag", c.loc)
    # the combination must run on every merge: neither the call nor any closure enclosing it may be
    # control dependent on a data test (e.g. short-circuited behind `ret_val != cur`)
    cond = []
    h, bb = g, c.bb
    while True:
        for gd in guards(h, bb):
            cond.append((h.name, gd))
        if h.kind != "closure" or h.name == root.name:
            break
        par = prog.fns.get(h.parent)
        if par is None:
            break
        cb = [bi for (bi, bj, name, ops) in par.closures_created() if name == h.name]
        if not cb:
            break
        h, bb = par, cb[0]
    chk.judge(not cond, R, BR + "MergeFn::to_callback:flag-unconditional",
              "the flag combination runs on every merge (not control dependent on any data test)",
              "the subsume flags are only combined conditionally (" + "; ".join(
                  f"in {n.rsplit('::', 2)[-1]}: {gd.get('rel') or ('truthy' if gd.get('truth') else 'falsy')} test" for n, gd in cond[:3]) +
              "): on the other path the output row keeps one row's flag", c.loc)
    # a flag-only change must be reported: the merged flag is compared with the current one
    ored = False
    for hh in region:
        for cc in hh.calls:
            if cc.p.endswith(("PartialEq::ne", "PartialEq>::ne", "PartialEq::eq", "PartialEq>::eq")):
                xs = set()
                for arg in cc.args:
                    xs |= {a[1] for a in hh.origins(arg, outargs=True) if a[0] in ("call", "outarg")}
                if BR + "combine_subsumed" in xs:
                    ored = True
    chk.judge(ored, R, BR + "MergeFn::to_callback:flag-change", "the merged flag is compared with the current flag (a flag-only change is a change)",
              "a change of the subsume flag alone is not reported as a change (the merged row would be dropped)", c.loc)
    # result flows into RowVals.subsume
    outer = prog.fns.get(g.parent) if g.kind == "closure" else None
    flows = False
    for h in region:
        for i, j, s in h.assigns():
            if s[2][0] == "agg" and s[2][2] == BR + "RowVals":
                adt = prog.adts[BR + "RowVals"]
                names = [fd["name"] for fd in adt["variants"][0]["fields"]]
                at = h.origins(s[2][4][names.index("subsume")], outargs=True)
                for a in at:
                    if a[0] == "outarg":
                        cc = h.call_at(a[2])
                        for arg in cc.args:
                            if any(x[0] == "closure" and (x[1] == g.name or g.name.startswith(x[1])) for x in h.origins(arg)):
                                flows = True
                    if a[0] == "call" and a[1].endswith("bool::then"):
                        cc = h.call_at(a[2])
                        ca = h.origins(cc.args[1])
                        if any(x[0] == "closure" and x[1] == g.name for x in ca):
                            flows = True
    chk.judge(flows, R, BR + "MergeFn::to_callback:flag-written", "merged flag is written as RowVals.subsume of the output row",
              "the merged subsume flag does not reach RowVals.subsume of the output row", root.loc)


def check_query_subsume(chk, prog):
    R = chk.rule("R-QUERY-SUBSUME", "BackendRule::query passes is_subsumed = None only when include_subsumed is true, otherwise Some(false); "
                 "query_table maps Some(false) to the constant NOT_SUBSUMED; only check_facts passes a constant true")
    f = prog.need("egglog::BackendRule::query")
    inc = [i for i in range(1, f.argc + 1) if f.locals[i] == "bool"]
    if not inc:
        chk.missing(R, "bool parameter include_subsumed of BackendRule::query")
        return
    incp = inc[-1]
    qs = f.calls_to(BR + "rule::RuleBuilder::query_table")
    chk.floor(R, len(qs), 1, "query_table calls in BackendRule::query")
    for c in qs:
        arg = c.args[3]
        defs = whole_defs(f, arg[1][0]) if arg[0] in ("c", "m") else []
        # follow one copy
        if len(defs) == 1 and defs[0][2] == "a" and defs[0][3][0] == "use" and defs[0][3][1][0] in ("c", "m"):
            defs = whole_defs(f, defs[0][3][1][1][0])
        ok = bool(defs)
        why = []
        for (bb, idx, kind, payload) in defs:
            if kind != "a" or payload[0] != "agg" or payload[2] != "core::option::Option":
                ok = False
                why.append("is_subsumed is not built as an Option literal")
                continue
            gs = [g for g in guards(f, bb) if "truth" in g and g["desc"][0] == "val" and
                  any(a == ("param", incp, ()) for a in f.origins(g["desc"][1]))]
            truth = {g["truth"] for g in gs}
            if payload[3] == "None":
                if truth != {True}:
                    ok = False
                    why.append("None (no subsume filter) is not restricted to include_subsumed == true")
            else:
                v = payload[4][0]
                if not (v[0] == "k" and v[1] == "false") or truth != {False}:
                    ok = False
                    why.append(f"Some({v[1] if v[0]=='k' else '?'}) under include_subsumed=={sorted(truth)}")
        chk.judge(ok, R, "egglog::BackendRule::query:is_subsumed", "None only under include_subsumed, else Some(false)", "; ".join(why) or "cannot resolve is_subsumed", c.loc)
    # query_table's mapping closure
    qt = prog.need(BR + "rule::RuleBuilder::query_table")
    okm = False
    for g in prog.children(qt):
        if g.argc == 2 and g.locals[2] == "bool":
            consts = {}
            for i, j, s in g.assigns():
                if s[2][0] == "use":
                    cn = const_name(s[2][1])
                    if cn in (BR + "SUBSUMED", BR + "NOT_SUBSUMED"):
                        t = {gg["truth"] for gg in guards(g, i) if "truth" in gg and gg["desc"][0] == "val" and g.origins(gg["desc"][1]) == {("param", 2, ())}}
                        consts[cn] = t
            okm = consts.get(BR + "NOT_SUBSUMED") == {False} and consts.get(BR + "SUBSUMED") == {True}
    chk.judge(okm, R, BR + "rule::RuleBuilder::query_table:map", "Some(false) -> NOT_SUBSUMED, Some(true) -> SUBSUMED",
              "query_table no longer maps Some(false) to the NOT_SUBSUMED constant", qt.loc)
    # the mapped entry reaches add_atom_with_timestamp_and_func's subsume argument
    ok2 = False
    for c in qt.calls_to(BR + "rule::RuleBuilder::add_atom_with_timestamp_and_func"):
        at = qt.origins(c.args[3])
        if any(a[0] == "call" and a[1].endswith("Option::map") for a in at):
            ok2 = True
    chk.judge(ok2, R, BR + "rule::RuleBuilder::query_table:atom", "the mapped flag constant is the atom's subsume-column entry",
              "is_subsumed no longer reaches the atom's subsume column", qt.loc)
    # callers
    n = 0
    for g, c in prog.direct_callers("egglog::BackendRule::query"):
        n += 1
        a = c.args[-1]
        root = g.root or g.name
        if a[0] == "k":
            if a[1] == "true":
                chk.judge(root == "egglog::EGraph::check_facts", R, f"{root}:query(include_subsumed=true)",
                          "check_facts matches subsumed rows (they still satisfy check)",
                          f"{root} queries with include_subsumed = true: subsumed rows would match a rule body", c.loc)
            else:
                chk.ok(R, f"{root}:query(include_subsumed=false)", "rule body excludes subsumed rows", c.loc)
        else:
            at = g.origins(a)
            named = any((x[0] in ("param", "call", "local", "agg")) and x[-1] and "include_subsumed" in x[-1][-1] for x in at) or \
                any(g.varnames.get(x[1]) == "include_subsumed" for x in at if x[0] == "param")
            chk.judge(named or root == "egglog::EGraph::add_rule", R, f"{root}:query(include_subsumed=parsed)",
                      "include_subsumed comes from the rule's :internal-include-subsumed option",
                      f"include_subsumed is computed from {fmt_atoms(at)}", c.loc)
    chk.floor(R, n, 3, "callers of BackendRule::query")


def check_rebuild_keeps_flag(chk, prog):
    R = chk.rule("R-REBUILD-KEEPS-FLAG", "each rebuild-rule builder binds a variable to the table atom's subsume column and passes the same variable to rebuild_row, "
                 "which uses set_with_subsume(.., Var(subsume_var)); the native rebuilder's column list is computed from the function schema only")
    n = 0
    for f in prog.lib_fns(["egglog_bridge"]):
        if f.kind == "closure":
            continue
        rr = f.calls_to(BR + "rule::RuleBuilder::rebuild_row")
        if not rr:
            continue
        n += 1
        atoms = [c for c in f.calls_to(BR + "rule::RuleBuilder::add_atom_with_timestamp_and_func")]
        for c in rr:
            sv = {a for a in f.origins(c.args[4])}
            thens = {a for a in sv if a[0] == "call" and a[1].endswith("bool::then")}
            match = False
            for at in atoms:
                fa = f.origins(at.args[2])
                if any(a[0] == "agg" and a[3] == "Some" for a in fa):  # Some(table): the table atom
                    sa = set(f.origins(at.args[3]))
                    for x in list(sa):
                        if x[0] == "call" and x[1].endswith("Option::map"):
                            sa |= f.origins(f.call_at(x[2]).args[0])
                    if thens and (thens & sa):
                        match = True
            chk.judge(bool(thens) and match, R, f"{f.name}:subsume-var",
                      "the variable bound to the atom's subsume column is the one handed to rebuild_row",
                      "rebuild_row does not receive the variable bound to the row's subsume column (flag lost on rebuild)", c.loc)
    chk.floor(R, n, 2, "rebuild-rule builders calling rebuild_row")
    rb = prog.need(BR + "rule::RuleBuilder::rebuild_row")
    sws = rb.calls_to(BR + "rule::RuleBuilder::set_with_subsume")
    ok = False
    for c in sws:
        at = rb.origins(c.args[3])
        for a in at:
            if a[0] == "agg" and a[3] == "Var":
                st = rb.stmt(a[4], a[5])
                va = rb.origins(st[2][4][0])
                if any(x[0] == "param" and x[1] == rb.argc for x in va):
                    ok = True
    chk.judge(ok, R, BR + "rule::RuleBuilder::rebuild_row", "rebuild_row forwards Var(subsume_var) to set_with_subsume",
              "rebuild_row drops the subsume variable", rb.loc)
    # set() must use NOT_SUBSUMED (a plain set never subsumes)
    st = prog.need(BR + "rule::RuleBuilder::set")
    cs = [const_name(o) for i, j, s in st.assigns() if s[2][0] == "agg" for o in s[2][4]]
    chk.judge(BR + "NOT_SUBSUMED" in cs and BR + "SUBSUMED" not in cs, R, BR + "rule::RuleBuilder::set", "set() writes NOT_SUBSUMED",
              "set() no longer writes NOT_SUBSUMED", st.loc)
    # native rebuild columns
    at_ = prog.need(BR + "EGraph::add_table")
    okn = False
    for g in prog.region(at_):
        for c in g.calls:
            if c.p.endswith("SortedWritesTable::new"):
                ta = g.origins(c.args[3])
                # to_rebuild is captured by the install_thread_pool closure: resolve upvar in parent
                for a in ta:
                    if a[0] == "param" and a[1] == 1 and g.kind == "closure":
                        for (bi, bj, name, ops) in at_.closures_created():
                            if name == g.name and a[2] and a[2][0].isdigit():
                                pa = at_.origins(ops[int(a[2][0])])
                                if any(x[0] == "call" and x[1].endswith("Iterator::collect") for x in pa):
                                    okn = _chain_over_schema(at_, pa)
                    elif a[0] == "call" and a[1].endswith("Iterator::collect"):
                        okn = _chain_over_schema(g, ta)
    chk.judge(okn, R, BR + "EGraph::add_table:to_rebuild", "native rebuild columns = filter over the function schema (never the timestamp/subsume columns)",
              "the native rebuilder's column list is no longer derived from the function schema alone", at_.loc)


def _chain_over_schema(f, atoms):
    """collect(..) over an iterator chain rooted at the `schema` field of the FunctionConfig parameter"""
    work = [a for a in atoms if a[0] == "call"]
    seen = set()
    while work:
        a = work.pop()
        if a in seen:
            continue
        seen.add(a)
        c = f.call_at(a[2])
        if c is None or not c.args:
            continue
        for x in f.origins(c.args[0], stop=None):
            if x[0] == "param" and x[2] and "schema" in x[2]:
                return True
            if x[0] == "call":
                cc = f.call_at(x[2])
                # method chains are not transparent: follow the receiver
                work.append(x)
    # fall back: any local named schema feeding an iter() in the chain
    for a in seen:
        c = f.call_at(a[2])
        for arg in c.args[:1]:
            for x in f.origins(arg):
                if x[0] in ("param", "local") and (("schema" in x[2]) or f.varnames.get(x[1]) == "schema"):
                    return True
    return False


def check_subsume_action(chk, prog):
    R = chk.rule("R-SUBSUME-ACTION", "the subsume action writes SUBSUMED into RowVals.subsume and inserts through insert_if_eq(cur_subsume, NOT_SUBSUMED), "
                 "where cur_subsume is looked up at SchemaMath::subsume_col")
    root = prog.need(BR + "rule::RuleBuilder::subsume")
    ok_ins = ok_row = False
    loc = root.loc
    for g in prog.region(root):
        for c in g.calls:
            if c.p.endswith("RuleBuilder::insert_if_eq"):
                loc = c.loc
                names = set()
                lk = False
                for a in c.args[1:]:
                    for x in g.origins(a):
                        if x[0] == "const" and x[1].startswith("const "):
                            names.add(x[1][6:])
                        if x[0] == "call" and x[1].endswith("RuleBuilder::lookup"):
                            lc = g.call_at(x[2])
                            ca = g.origins(lc.args[3])
                            if any(y[0] == "call" and y[1] == BR + "SchemaMath::subsume_col" for y in ca) or \
                               any(y[0] == "call" and y[1].endswith("from_usize") for y in ca):
                                lk = True
                ok_ins = names == {BR + "NOT_SUBSUMED"} and lk
        for i, j, s in g.assigns():
            if s[2][0] == "agg" and s[2][2] == BR + "RowVals":
                adt = prog.adts[BR + "RowVals"]
                names = [fd["name"] for fd in adt["variants"][0]["fields"]]
                at = g.origins(s[2][4][names.index("subsume")])
                for a in at:
                    if a[0] == "agg" and a[3] == "Some":
                        st = g.stmt(a[4], a[5])
                        va = g.origins(st[2][4][0])
                        if va == {("const", "const " + BR + "SUBSUMED", "egglog_core_relations::common::Value")} or \
                           any(x[0] == "const" and x[1] == "const " + BR + "SUBSUMED" for x in va) and len(va) == 1:
                            ok_row = True
    chk.judge(ok_ins, R, BR + "rule::RuleBuilder::subsume:insert_if_eq", "insert guarded by current flag == NOT_SUBSUMED",
              "subsume no longer inserts under insert_if_eq(cur_subsume, NOT_SUBSUMED)", loc)
    chk.judge(ok_row, R, BR + "rule::RuleBuilder::subsume:row", "the inserted row carries SUBSUMED", "the subsume action does not write the SUBSUMED constant", root.loc)


def run(chk, prog, tier):
    chk.explanation = EXPLANATION
    chk.assumptions = ["rustc nightly MIR construction and const evaluation", "deleted rows: scans skip stale rows (decided under C16 R-RAW-ROWS)"]
    check_subsume_merge(chk, prog)
    c05.check_merge_stored(chk, prog)
    check_query_subsume(chk, prog)
    check_rebuild_keeps_flag(chk, prog)
    check_subsume_action(chk, prog)
    c07.check_subsumed(chk, prog)
