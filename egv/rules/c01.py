"""C01 — equality is exactly the congruence closure of what was asserted.

Decides (structural necessary conditions only):
  R-REBUILD   every path from a merge of staged writes (Database::merge_all / run_rule_set /
              merge_table) to a normal return re-canonicalises (calls a rebuilder) or proves that
              the union-find did not grow (uf size before == after)
  R-FIXPOINT  rebuild loops stop only when every change signal of the pass is false
  R-SCAN-EXTENT rebuild scans cover the physical extent of every table (no row is skipped)
  R-MIN       the engine's merge-on-conflict and the union-find choose the same (minimum) id
"""
from . import rebuild_common as rc
from . import min_common as mc

EXPLANATION = (
    "Static clause of C01 decided on MIR: the engine never returns with unions merged into the union-find but tables not "
    "re-canonicalised; rebuild loops exit only at a fixpoint of all their change signals; the representative chosen by the "
    "table merge functions agrees with the union-find's (minimum id). Not decided: soundness/completeness of congruence "
    "closure over data."
)


def check_fixpoint(chk, prog, model):
    R = chk.rule("R-FIXPOINT", "a rebuild loop exits (normally) only on an edge where every change signal produced in the pass "
                 "(apply_rebuild, refresh_rows_for_values, ContainerRebuildSummary::changed; or the OR-accumulated `changed` flag "
                 "fed by every run_rules_impl in the loop) is known false")
    n = 0
    kinds = set()
    for name, entries in sorted(model.fix.items()):
        f = prog.fns[name]
        for e in entries:
            n += 1
            kinds.add(e["kind"])
            key = f"{name}:{e['kind']}-loop"
            if e["kind"] == "native":
                bad = [(u, v, m) for (u, v, m) in e["exits"] if m]
                chk.judge(not bad and len(e["signals"]) >= 3, R, key,
                          f"loop exits only when {e['signals']} are all false ({len(e['exits'])} exit edge(s))",
                          "loop can exit while a change signal may still be true: " + "; ".join(
                              f"exit bb{u}->bb{v} does not test {m}" for (u, v, m) in bad) +
                          ("" if len(e["signals"]) >= 3 else f"; only signals {e['signals']} are produced in the loop (expected apply_rebuild, refresh_rows_for_values, containers.changed)"),
                          f.loc, signals=e["signals"], exits=[(u, v) for (u, v, _) in e["exits"]])
            else:
                chk.judge(not e["problems"], R, key,
                          f"while-changed loop: flag reset each pass and OR-fed by all {e['n_calls']} run_rules_impl results; exits only on !flag",
                          "; ".join(e["problems"]), f.loc, n_calls=e["n_calls"])
            # every pass advances the timestamp
            body = e["body"]
            inc = [c.bb for c in f.calls if c.bb in body and c.is_("EGraph::inc_ts")]
            back = [u for u in body if e["header"] in f.succ[u]]
            ok = any(all(f.dominates(b, u) for u in back) for b in inc)
            chk.judge(ok, R, key + ":inc_ts", "every pass of the loop calls inc_ts",
                      "a pass of the rebuild loop can complete without inc_ts", f.loc)
    chk.floor(R, n, 3, "rebuild loops in egglog_bridge (native loop and serial while-changed loop of EGraph::rebuild, rebuild_parallel)")
    if "native" not in kinds:
        chk.missing(R, "native rebuild loop over Database::apply_rebuild")
    native_rebuilders = [n for n in model.rebuilders if any(e["kind"] == "native" for e in model.fix.get(n, []))]
    if not native_rebuilders:
        chk.bad(R, "rebuilders", f"no function with a native apply_rebuild loop is recognised as a rebuilder any more (every Ok path through a valid fixpoint loop); rebuilders found: {sorted(model.rebuilders)}")


def check_rebuild(chk, prog, model, prop_note=""):
    R = chk.rule("R-REBUILD", "after Database::{merge_all, run_rule_set, merge_table} every path to a normal return (Ok or Err) "
                 "passes a rebuilder call or the equal side of a comparison of the uf table's size before/after; "
                 "functions with no discharge at all propagate the obligation to their callers; public bridge API must not propagate")
    st = model.obligations()
    n = 0
    direct = 0
    for name, s in sorted(st.items()):
        f = prog.fns[name]
        if s["status"] in ("rebuilder", "in-rebuilder"):
            continue
        if f.crate != "egglog_bridge":
            # obligations can only reach crate egglog through a propagating pub bridge fn, reported below
            continue
        n += 1
        if any(w.startswith("GROW") for _, w in s["acquires"]):
            direct += 1
        key = f"{name}:after-merge"
        if s["status"] == "discharged":
            chk.ok(R, key, f"all paths after {[w for _, w in s['acquires']]} discharge via {s['discharge_calls'] or 'uf-size equality'}",
                   f.loc, acquires=s["acquires"], eq_edges=len(s["eq_edges"]))
        elif s["status"] == "mixed":
            chk.bad(R, key, "a path returns after merging without rebuilding: " + " -> ".join(rc.path_lines(f, s["path"])),
                    f.loc, acquires=s["acquires"], path=rc.path_lines(f, s["path"]))
        else:  # propagates
            if f.is_pub and f.kind != "closure":
                chk.bad(R, key, "public bridge function merges staged writes and returns without ever rebuilding",
                        f.loc, acquires=s["acquires"])
            else:
                chk.ok(R, key, "pure propagator (never discharges): obligation moves to its callers", f.loc, acquires=s["acquires"])
    chk.floor(R, direct, 2, "bridge functions calling Database::merge_all/run_rule_set directly (flush_updates_inner, run_rules_impl)")
    chk.floor(R, n, 3, "obligated bridge functions")
    # at least one function must discharge through the uf-size equality and one through a rebuilder
    if not any(s.get("eq_edges") for s in st.values()):
        chk.missing(R, "uf-size before/after equality idiom (no function uses it any more: table update needed)")


def check_uf_table(chk, prog):
    R = chk.rule("R-UF-TABLE", "the union-find table records exactly one row per effective union: DisplacedTable::insert_impl pushes (child, ts) onto `displaced` and indexes it under the child on "
                 "every path that called UnionFind::union, with child = the displaced id returned by union; Table::len is displaced.len() — R-REBUILD's `size unchanged => no new union` rests on this")
    DT = "egglog_core_relations::uf::DisplacedTable"
    f = prog.need(DT + "::insert_impl")
    un = f.calls_to("egglog_union_find::UnionFind::union")
    push = [c for c in f.calls if c.p == "alloc::vec::Vec::push" and any(a[0] == "param" and a[1] == 1 and a[2][:1] == ("displaced",) for a in f.origins(c.args[0]))]
    ins = [c for c in f.calls if c.p.endswith("HashMap::insert") and any(a[0] == "param" and a[1] == 1 and a[2][:1] == ("lookup_table",) for a in f.origins(c.args[0]))]
    ok = bool(un) and bool(push) and bool(ins)
    why = "union / displaced.push / lookup_table.insert not all present"
    if ok:
        for c in push + ins:
            pass
        p1 = rc.RebuildModel._path_to_ret(f, [c.target for c in un], {c.bb for c in push}, set())
        p2 = rc.RebuildModel._path_to_ret(f, [c.target for c in un], {c.bb for c in ins}, set())
        if p1 is not None or p2 is not None:
            ok = False
            why = "a union can be performed without recording the displaced id (the table does not grow, the engine skips the rebuild)"
        # what is recorded: the child (field 1 of union's result)
        for c in push:
            at = f.origins(c.args[1])
            good = False
            for a in at:
                if a[0] == "agg" and a[1] == "tuple":
                    st = f.stmt(a[4], a[5])
                    ca = f.origins(st[2][4][0])
                    if ca and all(x[0] == "call" and x[1].endswith("UnionFind::union") and x[3] == ("1",) for x in ca):
                        good = True
            if not good:
                ok = False
                why = "the recorded displaced id is not the child returned by UnionFind::union"
        for c in ins:
            ka = f.origins(c.args[1])
            if not (ka and all(x[0] == "call" and x[1].endswith("UnionFind::union") and x[3] == ("1",) for x in ka)):
                ok = False
                why = "lookup_table is not keyed by the displaced child id"
    chk.judge(ok, R, DT + "::insert_impl", "every effective union records (child, ts) and indexes it under the child", why, f.loc)
    ln = prog.fns.get(f"<{DT} as egglog_core_relations::table_spec::Table>::len")
    if ln is None:
        chk.missing(R, "Table::len for DisplacedTable")
    else:
        ra = ln.origins([0, []])
        okl = bool(ra) and all(a[0] == "call" and a[1] == "alloc::vec::Vec::len" for a in ra)
        if okl:
            for a in ra:
                c = ln.call_at(a[2])
                okl = okl and any(x[0] == "param" and x[2][:1] == ("displaced",) for x in ln.origins(c.args[0]))
        chk.judge(okl, R, DT + "::len", "len() = displaced.len()", "the union-find table's len() no longer counts the recorded unions", ln.loc)


def run(chk, prog, tier):
    chk.explanation = EXPLANATION
    chk.assumptions = [
        "rustc nightly MIR construction and trait resolution",
        "unwind (panic) paths are not part of 'every path'",
        "error exits of the rebuilder itself (`?` inside the rebuild loops) are exempt: a failed plan build aborts the rebuild",
        "len(uf_table) unchanged across a merge implies no new union was recorded (DisplacedTable appends one row per union)",
    ]
    model = rc.RebuildModel(prog)
    check_rebuild(chk, prog, model)
    check_fixpoint(chk, prog, model)
    R = chk.rule("R-MIN", "table merge on key conflict returns min(a,b) of the ids it unions, and UnionFind::union links max under min: "
                 "both sides pick the same representative")
    mc.check_bridge_min(chk, prog, R)
    mc.check_uf_union(chk, prog, R)
    from . import extent_common
    extent_common.check_scan_extent(chk, prog)
    extent_common.check_chunk_covers(chk, prog)
    check_uf_table(chk, prog)
