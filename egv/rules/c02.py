"""C02 — a rule run fires for exactly the set of matches of its body.

Decides only the path-shaped clause "in the database as it stood when the iteration began":
  R-SNAPSHOT  (i) in Database::run_rule_set every search/apply step (run_plan / run_join_stages, action-buffer flush,
              the scoped parallel section) precedes the single merge_all; (ii) nothing reachable from the join
              executor, the instruction interpreter or the action flushers can merge, clear or rebuild a table.
  R-CONSTRAINT-EVAL / R-CONSTRAINTS-APPLIED / R-CONSTRAINTS-PLANNED / R-CONSTRAINT-PARTITION / R-TRIE-CACHE / R-ROOT-HEADERS
              (join_common.py): the path of a body constraint from the planner to the row filter — every scan the stage
              compiler builds carries the atom's slow constraints exactly once, every subset the executor narrows an atom
              to went through those constraints (and the liveness filter), constant constraints travel in a header whose
              subset the root is intersected with, caches keyed on a subset are never reused for another subset or another
              constraint list, and each constraint variant is evaluated with the comparison it names.
Plan-independence, decomposition vs single bag, bag/message-variable selection and index choice are NOT decided (data- and
plan-dependent; DESIGN.md §3 C02).
"""
import re

from . import join_common

EXPLANATION = (
    "Static clauses of C02 decided on MIR / the resolved call graph: (1) no table is merged, cleared or rebuilt while any rule of the "
    "iteration is still searching or applying — all matching happens against the snapshot at the start of the iteration; (2) the "
    "constraints of a rule body (constants, repeated variables, primitive-free filters, timestamp bounds) reach the row filter on every "
    "path: planned once per atom, carried through stage fusion, applied to every subset the executor narrows an atom to, evaluated with "
    "the comparison each variant names, and never bypassed through a cache keyed on another subset or constraint list. "
    "Not decided: that the set of matches is independent of the join plan (strategy, decomposition, message variables, stage order, indexes)."
)

MUTATORS = re.compile(r"(free_join::Database::(merge_all|merge_table|merge_simple|apply_rebuild|clear_table|refresh_rows_for_values|rebuild_containers)$|"
                      r"table_spec::Table>::(merge|clear|apply_rebuild|refresh_rows_for_values)$|table_spec::Table::(merge|clear|apply_rebuild|refresh_rows_for_values)$|"
                      r"containers::ContainerValues::rebuild_all$)")


def check_snapshot(chk, prog):
    R = chk.rule("R-SNAPSHOT", "(i) Database::run_rule_set: every call that searches or applies (JoinState::run_plan in its closures, ActionBuffer::flush, the scoped parallel section) "
                 "happens before the one merge_all and never after it; (ii) from JoinState::run_join_stages / run_plan, ExecutionState::run_instrs and the action flushers no "
                 "table-mutating Database/Table operation is reachable (call graph depth 8, dyn calls fanned out to all local impls)")
    f = prog.find("Database::run_rule_set")
    f = [x for x in f if x.kind != "closure" and x.crate == "egglog_core_relations"]
    if not f:
        chk.missing(R, "Database::run_rule_set")
        return
    f = f[0]
    merges = [c for c in f.calls if c.p.endswith("Database::merge_all")]
    chk.judge(len(merges) == 1, R, "Database::run_rule_set:single-merge", "exactly one merge_all per rule-set run",
              f"run_rule_set merges {len(merges)} times: later rules would see earlier rules' writes", f.loc)
    if merges:
        m = merges[0]
        work = []
        for c in f.calls:
            if c.p.endswith(("ActionBuffer>::flush", "ActionBuffer::flush")) or c.p.endswith("threadpool::scope") or c.p.endswith("JoinState::run_plan") or c.p.endswith("JoinState::run_join_stages"):
                work.append((c.bb, c.p))
        for (bi, bj, name, ops) in f.closures_created():
            g = prog.fns.get(name)
            if g is None:
                continue
            reg = prog.region(g)
            if any(c.p.endswith(("JoinState::run_plan", "JoinState::run_join_stages")) for h in reg for c in h.calls):
                work.append((bi, "closure " + name.rsplit("::", 1)[-1]))
        chk.floor(R, len(work), 3, "search/apply steps in run_rule_set")
        for (bb, what) in work:
            before = m.bb in f.reach(bb) or f.dominates(bb, m.bb)
            after = bb in f.reach(m.bb)
            chk.judge(before and not after, R, f"Database::run_rule_set:{what.rsplit('::', 1)[-1]}-before-merge", "happens before the merge",
                      f"{what} can run after merge_all: it would search or apply against a database already changed by this iteration", f.loc)
    roots = []
    for suf in ("free_join::execute::JoinState::run_join_stages", "free_join::execute::JoinState::run_plan", "action::ExecutionState::run_instrs"):
        g = prog.fns.get("egglog_core_relations::" + suf)
        if g is None:
            chk.missing(R, suf)
        else:
            roots.append(g)
    for g in prog.lib_fns(["egglog_core_relations"]):
        if g.kind != "closure" and g.name.endswith("::flush") and "ActionBuffer" in g.name:
            roots.append(g)
    chk.floor(R, len(roots), 4, "executor / interpreter / flusher entry points")
    total = 0
    for r in roots:
        seen, edges = prog.reachable_from(r, depth=8)
        total += len(seen)
        hits = sorted(n for n in seen if MUTATORS.search(n))
        chk.judge(not hits, R, f"{r.name}:cannot-mutate-tables", f"{len(seen)} functions reachable, none merges/clears/rebuilds a table",
                  "table mutation reachable while rules are still matching: " + "; ".join(" -> ".join(x.rsplit("::", 2)[-2] + "::" + x.rsplit("::", 1)[-1] for x in prog.chain(edges, h)) for h in hits[:2]), r.loc)
    chk.extra["reachable_functions_examined"] = total


def run(chk, prog, tier):
    chk.explanation = EXPLANATION
    chk.assumptions = ["external functions are opaque (dyn ExternalFunction::invoke is fanned out to local impls only) but receive only &mut ExecutionState, whose view of the database is shared references (pinned by a compile-fail witness in witness/)",
                       "scope() returns after all tasks (C19)"]
    check_snapshot(chk, prog)
    join_common.check_constraint_eval(chk, prog)
    join_common.check_constraints_applied(chk, prog)
    join_common.check_constraints_planned(chk, prog)
    join_common.check_partition(chk, prog)
    join_common.check_trie_cache(chk, prog)
    join_common.check_root_headers(chk, prog)
    join_common.check_atom_lowering(chk, prog)
    from . import scan_common, c06
    c06.check_ruleset_siblings(chk, prog)
    scan_common.check_scan_batches(chk, prog, only=lambda f: "free_join::execute" in f.name, floor=3)
