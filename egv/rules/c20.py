"""C20 — single-threaded runs are reproducible bit for bit.

Decides (inventory of sources of run-to-run variation in library code):
  R-HASHERS       every iteration over a std / hashbrown / dashmap hash container whose hasher is not the fixed-seed
                  Fx hasher must be in the frozen table (reason) — iteration order of a randomly seeded map is
                  observable
  R-NONDET-CALLS  calls to env / clock / randomness / thread-identity APIs are exactly the frozen set, and clock values
                  only flow into elapsed()/Duration
  R-ADDR          exposed pointer addresses only flow back into pointers; addresses never reach hashing, ordering or
                  a Value
"""
import re

from ..facts import rv_operands

EXPLANATION = (
    "Static clause of C20 decided on MIR and resolved generic arguments: no source of run-to-run variation exists in the code "
    "that computes outputs — every hash container that is iterated uses the fixed-seed Fx hasher (IndexMap/IndexSet iterate in "
    "insertion order whatever the hasher), time/env/randomness calls are a frozen set with confined flows, memory addresses do "
    "not reach hashing/ordering/values. Not decided: equality of two executions."
)

CONTAINERS = ("std::collections::hash::map::HashMap", "std::collections::hash::set::HashSet", "hashbrown::map::HashMap",
              "hashbrown::set::HashSet", "dashmap::DashMap", "dashmap::set::DashSet")
ITER = {"iter", "iter_mut", "keys", "values", "values_mut", "into_iter", "drain", "retain", "for_each", "into_keys", "into_values",
        "extract_if", "par_iter", "iter_mut_unordered", "into_values_unordered"}

# iteration over a non-Fx-hashed container that is order-insensitive / not on an output path: (root fn, callee short) -> reason
HASHER_ALLOW = {}

NONDET = re.compile(r"(^std::env::var|^std::env::vars|^std::env::args|Instant::now$|SystemTime::now$|^rand::|^getrandom|RandomState::new$|"
                    r"^std::thread::current$|thread::functions::current$|available_parallelism$|^std::process::id$|thread_rng$)")

NONDET_ALLOW = {
    ("std::time::Instant::now", "egglog_bridge::EGraph::rebuild"): "timing for a log line",
    ("std::time::Instant::now", "egglog_bridge::EGraph::rebuild_parallel"): "timing for a log line",
    ("std::time::Instant::now", "egglog_bridge::EGraph::run_rules_inner"): "rebuild_time of the iteration report (timings are excluded by the property)",
    ("std::time::Instant::now", "egglog_core_relations::free_join::execute::<impl egglog_core_relations::free_join::Database>::run_rule_set"): "search/apply/merge timings of the rule-set report",
    ("std::time::Instant::now", "egglog_core_relations::free_join::Database::run_rule_set"): "search/apply/merge timings of the rule-set report",
    ("std::env::var", "egglog_core_relations::parallel_heuristics::cutoff"): "size cut-offs choosing between sibling implementations (confined by C06 R-CUTOFF-PURE)",
    ("std::env::var", "egglog_core_relations::parallel::read_usize_env"): "parallel chunk-size tuning (performance only)",
    ("std::thread::functions::available_parallelism", "egglog_bridge::normalize_thread_count"): "thread count when the user passes 0 (the property is about one thread)",
    ("rand::rng::Rng::random_range", "egglog_core_relations::hash_index::bench_support::IndexInput::random"): "doc(hidden) benchmark input generator, seeded, not on any command path",
    ("rand::rng::Rng::random_range", "egglog_core_relations::hash_index::bench_support::gen_blocks"): "doc(hidden) benchmark input generator, seeded, not on any command path",
}


def deterministic_hasher(ra):
    return any("FxHasher" in a or "FxBuildHasher" in a for a in ra)


def container_of(c):
    for pre in CONTAINERS:
        if c.p.startswith(pre + "::"):
            return pre
        if " as " in c.p and pre in c.p.split(" as ")[0]:
            return pre
    return None


def order_erased(f, it):
    """the iteration's order cannot be observed: the items are collected and the collection is sorted before
    the function returns (sort*/sort_unstable* on the collected vector dominates every return)"""
    # follow the iterator chain forward: values originating from the iteration call
    sorts = [c for c in f.calls if c.p.rsplit("::", 1)[-1].startswith(("sort", "sort_unstable"))]
    for s_ in sorts:
        at = f.origins(s_.args[0])
        hit = False
        work = list(at)
        seen = set()
        while work:
            a = work.pop()
            if a in seen:
                continue
            seen.add(a)
            if a[0] == "call":
                if a[2] == it.bb:
                    hit = True
                    break
                c = f.call_at(a[2])
                if c is not None and c.args:
                    work.extend(f.origins(c.args[0]))
        if hit and all(f.dominates(s_.bb, r) for r in f.ret_blocks):
            return True
    return False


def check_hashers(chk, prog):
    R = chk.rule("R-HASHERS", "every iteration (iter / keys / values / into_iter / drain / retain / for_each ...) over a std, hashbrown or dashmap hash map/set in workspace library code "
                 "uses BuildHasherDefault<FxHasher> (fixed seed), or is in the frozen table with a reason; indexmap and the raw HashTable (caller-supplied hashes) are out of scope")
    n = 0
    n_fx = 0
    for f in prog.lib_fns():
        if "bench_support" in f.name:
            continue
        for c in f.calls:
            short = c.p.rsplit("::", 1)[-1]
            cont = container_of(c)
            if cont is None or short not in ITER:
                continue
            n += 1
            root = f.root or f.name
            if deterministic_hasher(c.ra):
                n_fx += 1
                continue
            hasher = next((a for a in c.ra if "Hash" in a or "Random" in a or "State" in a), "?")
            key = f"{root}:{short}-over-{cont.rsplit('::', 1)[-1]}"
            if (root, short) in HASHER_ALLOW:
                chk.ok(R, key, f"listed: {HASHER_ALLOW[(root, short)]}", c.loc)
            elif order_erased(f, c):
                chk.ok(R, key, "items are collected and sorted before the function returns: the hash order is not observable", c.loc)
            else:
                chk.bad(R, key, f"iteration over a {cont} hashed with {hasher} (randomly seeded per process): the order of the produced items differs from run to run", c.loc)
    chk.floor(R, n, 30, "hash-container iteration sites in library code")
    R2 = R
    if n_fx:
        chk.ok(R2, "fx-hashed-iteration-sites", f"{n_fx} iteration sites use the fixed-seed Fx hasher")
    # the project's aliases must stay Fx
    for alias_fn in ():
        pass


def check_nondet_calls(chk, prog):
    R = chk.rule("R-NONDET-CALLS", "calls to environment / clock / randomness / thread-identity APIs in workspace library code are exactly the frozen table; Instant values only flow into elapsed()/duration arithmetic")
    n = 0
    for f in prog.lib_fns():
        for c in f.calls:
            if not NONDET.search(c.p):
                continue
            n += 1
            root = f.root or f.name
            key = f"{root}:{c.p.rsplit('::', 2)[-2]}::{c.p.rsplit('::', 1)[-1]}"
            why = NONDET_ALLOW.get((c.p, root))
            if why is None:
                chk.bad(R, key, f"{c.p} called from {root}: a new source of run-to-run variation in library code", c.loc)
                continue
            ok = True
            if c.p.endswith("Instant::now"):
                # every use of the value is elapsed()/duration_since()
                for g in prog.region(prog.fns.get(f.root) if f.kind == "closure" else f):
                    for c2 in g.calls:
                        for a in c2.args:
                            at = g.origins(a)
                            if any(x[0] == "call" and x[2] == c.bb and x[1] == c.p for x in at) and g is f:
                                if not c2.p.endswith(("Instant::elapsed", "Instant::duration_since", "Instant::saturating_duration_since", "Instant::checked_duration_since")):
                                    ok = False
            chk.judge(ok, R, key, f"listed: {why}", f"the value of {c.p} flows somewhere other than elapsed()/duration arithmetic", c.loc)
    chk.floor(R, n, 8, "environment/clock/randomness call sites")


SINKS = ("Hash>::hash", "Hash::hash", "Ord>::cmp", "PartialOrd>::partial_cmp", "::sort", "::sort_by", "::sort_by_key", "::sort_unstable", "::sort_unstable_by",
         "::sort_unstable_by_key", "Value::new", "Value::new_const", "NumericId>::from_usize", "NumericId>::new", "PartialOrd>::lt", "PartialOrd>::gt", "PartialOrd>::le", "PartialOrd>::ge")


def check_addr(chk, prog):
    R = chk.rule("R-ADDR", "a pointer address exposed as an integer (PointerExposeProvenance cast, ptr::addr) only flows into arithmetic and back into a pointer; it never reaches "
                 "Hash::hash, Ord::cmp / comparisons, sort keys, or an id/Value constructor")
    n = 0
    for f in prog.lib_fns():
        seeds = []
        for i, j, s in f.assigns():
            if s[2][0] == "cast" and "ExposeProvenance" in s[2][1] and "With" not in s[2][1]:
                seeds.append((f, s[1][0], s[3]))
        for c in f.calls:
            if c.p.endswith("::addr") and ("ptr" in c.p or "NonNull" in c.p) and not c.dest[1]:
                seeds.append((f, c.dest[0], c.line))
        for (g0, l0, line) in seeds:
            n += 1
            bad = []
            tainted = {(g0.name, l0)}
            work = [(g0, l0)]
            steps = 0
            while work and steps < 200:
                steps += 1
                g, l = work.pop()
                for i, j, s in g.assigns():
                    ops = rv_operands(s[2])
                    if s[2][0] in ("ref", "rawptr") and s[2][2][0] == l:
                        ops = ops + [["c", s[2][2]]]
                    if any(o[0] in ("c", "m") and o[1][0] == l for o in ops):
                        if s[2][0] == "agg" and s[2][1] == "closure":
                            h = prog.fns.get(s[2][2])
                            if h is not None:
                                k = next(idx for idx, o in enumerate(s[2][4]) if o[0] in ("c", "m") and o[1][0] == l)
                                # loads of upvar k in the closure
                                for i2, j2, s2 in h.assigns():
                                    for o2 in rv_operands(s2[2]):
                                        if o2[0] in ("c", "m") and o2[1][0] == 1:
                                            pj = [e for e in o2[1][1] if not isinstance(e, str)]
                                            if pj and pj[0][0] == "f" and pj[0][1] == k and (h.name, s2[1][0]) not in tainted:
                                                tainted.add((h.name, s2[1][0]))
                                                work.append((h, s2[1][0]))
                            continue
                        if s[2][0] == "cast" and "WithExposedProvenance" in s[2][1]:
                            continue  # back to a pointer: fine
                        if (g.name, s[1][0]) not in tainted:
                            tainted.add((g.name, s[1][0]))
                            work.append((g, s[1][0]))
                for c in g.calls:
                    if any(a[0] in ("c", "m") and a[1][0] == l for a in c.args):
                        if any(c.p.endswith(sk) or c.d.endswith(sk) for sk in SINKS):
                            bad.append(f"{c.p} at {c.loc}")
                        elif not c.dest[1] and (g.name, c.dest[0]) not in tainted and not c.p.startswith("core::fmt"):
                            tainted.add((g.name, c.dest[0]))
                            work.append((g, c.dest[0]))
            chk.judge(not bad, R, f"{g0.root or g0.name}:exposed-address", f"address exposed at line {line} only flows back into pointers ({len(tainted)} values followed)",
                      f"a memory address flows into {bad}: results depend on allocation addresses", f"{g0.file}:{line}")
    chk.floor(R, n, 1, "exposed-address sites (parallel_rehash's scratch pointer)")


def run(chk, prog, tier):
    chk.explanation = EXPLANATION
    chk.assumptions = ["IndexMap/IndexSet iterate in insertion order regardless of hasher", "hashbrown::HashTable orders entries by caller-supplied hash codes, which the repo computes with FxHasher",
                       "bench_support (doc(hidden), seeded rand) is not on any command path"]
    check_hashers(chk, prog)
    check_nondet_calls(chk, prog)
    check_addr(chk, prog)
