"""C18 — custom schedulers are offered every match, lose none, and keep the DB sound.

Decides (bookkeeping obligations of step_rules_with_scheduler):
  R-TAKE-RESTORE      fields taken out of self (mem::take) are restored on every normal return
  R-QUERY-NO-SUBSUMED the scheduler's query rule is built with include_subsumed = false
  R-DECIDE-THEN-ACT   query run -> scheduler decision -> flush_updates -> action run (dominance chain)
  R-RESIDUAL-KEPT     instantiate's result is stored back as the rule's residual matches; instantiate
                      returns the (truncated) original vector, dedups chosen indices before the
                      swap-remove, inserts every chosen row
  R-REPORT            query_report.updated := false; action_report.can_stop = !updated && scheduler.can_stop()
"""
from ..util import guards, fmt_atoms

EXPLANATION = (
    "Static clause of C18 decided on MIR: the bookkeeping obligations of step_rules_with_scheduler — take/restore pairing on every "
    "exit, query rule excludes subsumed rows, decisions are flushed (merged and re-canonicalised) before actions run, unchosen "
    "matches are stored back, chosen indices are deduplicated before the swap-remove, report wiring. Not decided: fairness and "
    "confluence outcomes, canonicity of residual raw values held outside the database."
)

STEP = "egglog::scheduler::<impl egglog::EGraph>::step_rules_with_scheduler"


def find_step(prog):
    c = prog.find("step_rules_with_scheduler", "egglog")
    c = [f for f in c if f.kind != "closure"]
    return c[0] if c else None


def check_take_restore(chk, prog, f):
    R = chk.rule("R-TAKE-RESTORE", "every field of self emptied with mem::take in step_rules_with_scheduler is assigned back on every path to a normal return")
    takes = []
    for c in f.calls:
        if c.p == "core::mem::take":
            at = f.origins(c.args[0])
            for a in at:
                if a[0] == "param" and a[1] == 1 and len(a[2]) == 1:
                    takes.append((c, a[2][0]))
    chk.floor(R, len(takes), 2, "mem::take(&mut self.<field>) calls (rulesets, schedulers)")
    for c, field in takes:
        stores = set()
        for i, j, s in f.assigns():
            pj = [e for e in s[1][1] if not isinstance(e, str)]
            if s[1][0] == 1 and len(pj) == 1 and pj[0][2] == field:
                # must store the taken value back
                stores.add(i)
        from .rebuild_common import RebuildModel
        path = RebuildModel._path_to_ret(f, [c.target], stores, set())
        chk.judge(path is None, R, f"{f.name}:restore-{field}", f"self.{field} is restored on every path after the take",
                  f"a path returns with self.{field} still taken out (empty): blocks {path}", c.loc)


def check_query_no_subsumed(chk, prog):
    R = chk.rule("R-QUERY-NO-SUBSUMED", "SchedulerRuleInfo::new builds the query rule with BackendRule::query(.., false)")
    n = 0
    for g, c in prog.direct_callers("egglog::BackendRule::query"):
        root = g.root or g.name
        if "SchedulerRuleInfo" in root:
            n += 1
            a = c.args[-1]
            chk.judge(a[0] == "k" and a[1] == "false", R, f"{root}:query", "scheduler query rule excludes subsumed rows",
                      "scheduler query rule does not pass include_subsumed = false", c.loc)
    chk.floor(R, n, 1, "BackendRule::query call in SchedulerRuleInfo::new")


def check_decide_then_act(chk, prog, f):
    R = chk.rule("R-DECIDE-THEN-ACT", "in the stepping closure: run_rules(query rules) dominates with_execution_state (decision) dominates flush_updates dominates run_rules(action rules)")
    body = None
    for g in prog.region(f):
        if g.calls_to("egglog_bridge::EGraph::flush_updates") and g.calls_to("egglog_bridge::EGraph::run_rules"):
            body = g
    if body is None:
        chk.missing(R, "closure of step_rules_with_scheduler that flushes and runs rules")
        return None
    runs = body.calls_to("egglog_bridge::EGraph::run_rules")
    wes = body.calls_to("egglog_bridge::EGraph::with_execution_state")
    fl = body.calls_to("egglog_bridge::EGraph::flush_updates")
    ok = len(runs) == 2 and len(wes) == 1 and len(fl) >= 1
    if ok:
        r1, r2 = runs
        if body.dominates(r2.bb, r1.bb):
            r1, r2 = r2, r1
        ok = body.dominates(r1.bb, wes[0].bb) and any(body.dominates(wes[0].bb, x.bb) and body.dominates(x.bb, r2.bb) for x in fl)
        # r2 runs the action rules: its rule list originates from a map over `.action_rule`
    chk.judge(ok, R, f"{f.name}:order", "query run, decision, flush, action run happen in this order on every path",
              f"ordering broken: run_rules x{len(runs)}, with_execution_state x{len(wes)}, flush_updates x{len(fl)} not in a dominance chain", body.loc)
    return body


def check_residual(chk, prog, f):
    R = chk.rule("R-RESIDUAL-KEPT", "Matches::instantiate's result is stored back into rule_info.matches; instantiate returns the original vector (truncated) "
                 "on the partial branch, sorts and dedups `chosen` before the swap-remove and truncate, and inserts every chosen row before removing")
    stored = False
    loc = f.loc
    for g in prog.region(f):
        for c in g.calls_to("egglog::scheduler::Matches::instantiate"):
            loc = c.loc
            for i, j, s in g.assigns():
                if "*" in [e for e in s[1][1] if isinstance(e, str)] and s[2][0] == "use":
                    at = g.origins(s[2][1])
                    if any(a[0] == "call" and a[2] == c.bb for a in at):
                        da = g.origins([s[1][0], []])
                        # the destination is reached through Mutex::lock on ...matches
                        for a in da:
                            if a[0] == "call" and a[1].endswith("Mutex::lock"):
                                lc = g.call_at(a[2])
                                la = g.origins(lc.args[0])
                                if any(x[-1] and x[-1][-1] == "matches" for x in la if x[0] in ("call", "param", "local")):
                                    stored = True
    chk.judge(stored, R, f"{f.name}:store-residual", "residual matches returned by instantiate are stored back into rule_info.matches",
              "the residual (unchosen) matches returned by instantiate are dropped", loc)
    inst = prog.need("egglog::scheduler::Matches::instantiate")
    ret = inst.origins([0, []])
    has_orig = ("param", 1, ("matches",)) in ret
    others_ok = all(a == ("param", 1, ("matches",)) or (a[0] == "call" and a[1] in ("alloc::vec::Vec::new",)) for a in ret)
    chk.judge(has_orig and others_ok, R, "egglog::scheduler::Matches::instantiate:returns",
              "returns self.matches (after removal) or an empty vector", f"instantiate returns {fmt_atoms(ret)}", inst.loc)
    # an empty residual may only be returned when the scheduler chose everything (all_chosen)
    empties = [c for c in inst.calls if c.dest == [0, []] and c.p in ("alloc::vec::Vec::new", "alloc::vec::Vec::with_capacity")]
    ok_e = True
    for c in empties:
        g_ok = False
        for g in guards(inst, c.bb):
            if g.get("truth") is True and g["desc"][0] == "val":
                if any(a[0] == "param" and a[1] == 1 and a[2] == ("all_chosen",) for a in inst.origins(g["desc"][1])):
                    g_ok = True
        ok_e = ok_e and g_ok
    chk.judge(ok_e and bool(empties), R, "egglog::scheduler::Matches::instantiate:empty-only-if-all-chosen",
              "an empty residual is returned only under all_chosen",
              "instantiate can return an empty residual although not every match was chosen (all_chosen is false): unchosen matches are dropped", inst.loc)
    sorts = [c for c in inst.calls if c.p.endswith("]::sort_unstable") or c.p.endswith("]::sort")]
    dedups = [c for c in inst.calls if c.p == "alloc::vec::Vec::dedup"]

    def on_chosen(c):
        return any(a[0] == "param" and a[1] == 1 and a[2][:1] == ("chosen",) for a in inst.origins(c.args[0]))

    sorts = [c for c in sorts if on_chosen(c)]
    dedups = [c for c in dedups if on_chosen(c)]
    swaps = [c for c in inst.calls if c.p.endswith("]::swap") or c.p == "alloc::vec::Vec::swap_remove"]
    truncs = [c for c in inst.calls if c.p == "alloc::vec::Vec::truncate"]
    removal = swaps + truncs
    ok = bool(sorts) and bool(dedups) and bool(removal) and all(
        any(inst.dominates(s.bb, r.bb) for s in sorts) and any(inst.dominates(d.bb, r.bb) for d in dedups) for r in removal)
    ok = ok and all(any(inst.dominates(s.bb, d.bb) for s in sorts) for d in dedups)
    chk.judge(ok, R, "egglog::scheduler::Matches::instantiate:dedup", "chosen is sorted then deduplicated before any swap/truncate",
              f"removal of chosen matches is not preceded by sort+dedup of `chosen` (sorts={len(sorts)}, dedups={len(dedups)}, removals={len(removal)}): a duplicate index evicts an unchosen match", inst.loc)
    ins = inst.calls_to("egglog_bridge::TableAction::insert")
    ok_i = len(ins) >= 2 and all(any(r.bb in inst.reach(i.bb) and i.bb not in inst.reach(r.bb) for i in ins) for r in removal)
    chk.judge(ok_i, R, "egglog::scheduler::Matches::instantiate:insert-first", "chosen rows are inserted into the decided table before they are removed",
              "chosen rows may be removed without having been inserted", inst.loc)


def check_every_rule_offered(chk, prog, f):
    """Step 3 of a scheduled iteration: the scheduler is consulted for EVERY rule of the ruleset, every iteration — whether or not its
    query ran and whether or not it has a backlog: filter_matches is the only place `should_seek` is recomputed."""
    R = chk.rule("R-EVERY-RULE-OFFERED", "in the scheduled step, the loop that lets the scheduler decide is a plain loop over the collected rules in which every iteration calls "
                 "Scheduler::filter_matches, stores its result into rule_info.should_seek, calls Matches::instantiate and writes the residual back — no iteration skips "
                 "(`continue`) past any of them; the action-rule list is built from every collected rule (map, not filter)")
    g = None
    for h in prog.region(f):
        if any(c.d.endswith("Scheduler::filter_matches") for c in h.calls):
            g = h
    if g is None:
        chk.missing(R, "closure of the scheduled step that calls Scheduler::filter_matches")
        return
    fm = [c for c in g.calls if c.d.endswith("Scheduler::filter_matches")]
    inst = [c for c in g.calls if c.p.endswith("scheduler::Matches::instantiate")]
    seek = set()
    for i, j, s2 in g.assigns():
        pj = [e for e in s2[1][1] if not isinstance(e, str)]
        if pj and pj[-1][0] == "f" and pj[-1][2] == "should_seek":
            if any(a[0] == "call" and a[2] in {c.bb for c in fm} for a in g.origins(s2[2][1] if s2[2][0] == "use" else ["k", "", ""])):
                seek.add(i)
    # also: the call's destination IS the field
    for c in fm:
        if c.dest[1] and [e for e in c.dest[1] if not isinstance(e, str)][-1:] and [e for e in c.dest[1] if not isinstance(e, str)][-1][2] == "should_seek":
            seek.add(c.bb)
    loops = []
    for c in g.calls:
        if (c.p.endswith("Iterator>::next") or c.p.endswith("Iterator::next")) and c.target is not None and g.term(c.target)[0] == "switch":
            some = [tb for v, tb in g.term(c.target)[2] if v == "1"]
            if some and any(x.bb in ({some[0]} | g.reach(some[0])) for x in fm):
                loops.append((c, some[0]))
    ok = len(loops) == 1 and bool(fm) and bool(inst) and bool(seek)
    why = []
    if ok:
        nx, some = loops[0]
        for need, what in (({c.bb for c in fm}, "Scheduler::filter_matches"), (seek, "the should_seek update"), ({c.bb for c in inst}, "Matches::instantiate")):
            r = {some} | g.reach_avoiding([some], need) if some not in need else set()
            if nx.bb in r:
                ok = False
                why.append(f"an iteration can reach the next rule without {what}")
    else:
        why.append(f"loops={len(loops)} filter_matches={len(fm)} instantiate={len(inst)} should_seek stores={len(seek)}")
    chk.judge(ok, R, f"{f.name}:decide-loop", "every rule of the ruleset is offered to the scheduler in every iteration",
              "; ".join(why) + ": a rule whose query did not run and whose backlog is empty is never offered again, so its should_seek flag is never recomputed and the rule starves", g.loc)


def check_report(chk, prog, f, body):
    R = chk.rule("R-REPORT", "query_report.updated is forced to false; action_report.can_stop is false when updated, else the scheduler's can_stop()")
    if body is None:
        chk.missing(R, "stepping closure")
        return
    upd_false = False
    cs_defs = []
    for i, j, s in body.assigns():
        pj = [e for e in s[1][1] if not isinstance(e, str)]
        if len(pj) == 1 and pj[0][0] == "f" and "RunReport" in body.locals[s[1][0]]:
            if pj[0][2] == "updated" and s[2][0] == "use" and s[2][1][0] == "k" and s[2][1][1] == "false":
                upd_false = True
            if pj[0][2] == "can_stop":
                cs_defs.append((i, s))
    chk.judge(upd_false, R, f"{f.name}:query-updated", "query matches do not count as progress (updated := false)",
              "query_report.updated is no longer reset", body.loc)
    # can_stop: value is (through a temp) false under updated, scheduler.can_stop() otherwise
    ok = False
    for i, s in cs_defs:
        if s[2][0] != "use":
            continue
        src = s[2][1]
        if src[0] == "k":
            continue
        defs = body.defs.get(src[1][0], [])
        sched = False
        rest_ok = True
        for (bb, idx, dproj, kind, payload) in defs:
            if kind == "call" and payload.d.endswith("Scheduler::can_stop"):
                gs = [g for g in guards(body, bb) if "truth" in g and g["desc"][0] == "val"]
                upd = [g for g in gs if any(a[-1] and a[-1][-1] == "updated" for a in body.origins(g["desc"][1]) if a[0] in ("local", "call", "param"))]
                if any(g["truth"] is False for g in upd):
                    sched = True
            elif kind == "a" and payload[0] == "use" and payload[1][0] == "k" and payload[1][1] == "false":
                pass
            else:
                rest_ok = False
        if sched and rest_ok:
            ok = True
    chk.judge(ok, R, f"{f.name}:action-can-stop", "can_stop = !updated && scheduler.can_stop(..)",
              "action_report.can_stop is not `!updated && scheduler.can_stop()`", body.loc)


def run(chk, prog, tier):
    chk.explanation = EXPLANATION
    chk.assumptions = ["rustc nightly MIR construction", "shared-handle aliasing of SchedulerRuleInfo.matches under Clone is decided under C08 (finding F6)"]
    f = find_step(prog)
    if f is None:
        chk.rule("R-ANCHORS", "anchors exist")
        chk.missing("R-ANCHORS", "step_rules_with_scheduler")
        return
    check_take_restore(chk, prog, f)
    check_query_no_subsumed(chk, prog)
    body = check_decide_then_act(chk, prog, f)
    check_residual(chk, prog, f)
    check_every_rule_offered(chk, prog, f)
    check_report(chk, prog, f, body)
