"""R-SCAN-BATCHES — the chunked-scan protocol.

Table scans are delivered in batches: `scan_project` / `scan_bounded` fill a caller-owned buffer with at most `n` rows and
return the offset to continue from (None when the subset is exhausted).  The LAST call still fills the buffer, so the rows
it delivered must be consumed on the None arm as well; a loop that only drains inside `while let Some(next) = ...` silently
loses the final partial batch (up to n-1 rows: matches, index entries, extraction candidates).

Rule: for every call site of a batched scan whose buffer is owned by the calling function, no path leads from the call to
(a) a normal return, (b) the next execution of the same call, or (c) a `clear()` of the buffer, without passing a consumer of
the buffer (a call or closure capture that receives the buffer, or the buffer being returned)."""
from ..util import fmt_atoms

SCANS = ("::scan_project", "::scan_bounded")
# argument positions (self, subset, [cols], start, n, [cs], out)
OUT_POS = {"scan_project": 6, "scan_bounded": 4}


def _buffer_ids(f, operand):
    at = f.origins(operand)
    return {a for a in at if a[0] in ("call", "agg", "local")}


def scan_sites(prog, crates=("egglog_core_relations", "egglog_bridge", "egglog")):
    for f in prog.lib_fns(list(crates)):
        if f.name.rsplit("::", 1)[-1] in ("scan_project", "scan_bounded") or "::scan_project::" in f.name or "::scan_bounded::" in f.name:
            continue  # the wrappers / implementations themselves forward to the table
        for c in f.calls:
            m = c.p.rsplit("::", 1)[-1]
            if m not in OUT_POS or not c.p.endswith(SCANS):
                continue
            if "table_spec" not in c.p and "table_spec" not in c.d:
                continue
            pos = OUT_POS[m]
            if len(c.args) <= pos:
                continue
            yield f, c, c.args[pos]


def check_scan_batches(chk, prog, R=None, only=None, floor=None):
    """only: optional predicate(fn) restricting the sites judged (the rule text stays the same)"""
    R = R or chk.rule("R-SCAN-BATCHES", "for every call of a batched table scan (scan_project / scan_bounded) into a buffer owned by the caller: no path from the call to a normal return, "
                      "to the next execution of the same call, or to a clear() of the buffer avoids every consumer of the buffer (a call or closure that receives it, or the buffer "
                      "being returned) — the final partial batch delivered together with `None` is processed like every other batch")
    n = 0
    for f, c, out in scan_sites(prog):
        if only is not None and not only(f):
            continue
        ids = _buffer_ids(f, out)
        if not ids:
            # the buffer is a parameter: the caller consumes it
            continue
        n += 1
        consumers = set()
        clears = set()
        for c2 in f.calls:
            if c2.bb == c.bb:
                continue
            for a in c2.args:
                if a[0] not in ("c", "m"):
                    continue
                if _buffer_ids(f, a) & ids:
                    if c2.p.endswith("::clear"):
                        clears.add(c2.bb)
                    elif c2.p.endswith(SCANS) or c2.p.endswith(("mem::drop", "mem::forget")):
                        pass
                    else:
                        consumers.add(c2.bb)
        for (bi, bj, name, ops) in f.closures_created():
            for o in ops:
                if o[0] in ("c", "m") and _buffer_ids(f, o) & ids:
                    consumers.add(bi)
        # buffer returned
        for (bb, idx, dproj, kind, payload) in f.defs.get(0, []):
            if kind == "a":
                from ..facts import rv_operands
                for o in rv_operands(payload):
                    if o[0] in ("c", "m") and _buffer_ids(f, o) & ids:
                        consumers.add(bb)
        # search: from the scan's successor, avoiding consumers; bad if we reach ret / the scan block / a clear block
        bad_at = None
        seen = set()
        stack = [c.target] if c.target is not None else []
        while stack:
            x = stack.pop()
            if x in seen:
                continue
            seen.add(x)
            if x in consumers:
                continue
            if x == c.bb:
                bad_at = "the next batch is requested"
                break
            if x in clears:
                bad_at = "the buffer is cleared"
                break
            if f.term(x)[0] == "ret":
                bad_at = "the function returns"
                break
            stack.extend(f.succ[x])
        role = f.name
        if f.kind == "closure":
            role = (f.root or f.parent or f.name) + "::<closure>"
        chk.judge(bad_at is None, R, f"{role}:{c.p.rsplit('::', 1)[-1]}", "every batch (including the last, delivered with None) is consumed",
                  f"a batch filled by {c.p.rsplit('::', 1)[-1]} can be dropped: {bad_at} on a path that never hands the buffer to a consumer (the final partial batch is lost)", c.loc)
    if floor is not None:
        chk.floor(R, n, floor, "batched scan call sites")
    return n
