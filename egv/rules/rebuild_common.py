"""Shared analysis for C01 / C03 / C04 / C14: rebuild loops (R-FIXPOINT), rebuilders, and the
must-rebuild-after-merge obligation (R-REBUILD)."""
from collections import deque

from ..util import edge_relation, trace_back, guards

GROW = ("Database::merge_all", "Database::run_rule_set", "Database::merge_table")
BRIDGE = "egglog_bridge"


def rule_set_runners(prog):
    """names of the bridge functions that call Database::run_rule_set directly (today: run_rules_impl)"""
    return {f.name for f in prog.lib_fns([BRIDGE]) if f.kind != "closure" and any(c.p.endswith("Database::run_rule_set") for c in f.calls)}


def natural_loops(fn):
    """list of (header, body-set, back-edge-sources)"""
    loops = {}
    for u in fn.live:
        for h in fn.succ[u]:
            if fn.dominates(h, u):
                body = loops.setdefault(h, {h})
                stack = [u]
                while stack:
                    x = stack.pop()
                    if x in body:
                        continue
                    body.add(x)
                    stack.extend(p for p in fn.pred[x] if p in fn.live)
    return [(h, b) for h, b in loops.items()]


def loop_exits(fn, body):
    """normal exits: edges leaving the loop towards a block that can still reach a return"""
    return [(u, v) for u in sorted(body) for v in fn.succ[u] if v not in body and v in fn.pdom]


def desc_local(fn, d):
    """the local a described switch operand stands for (plain value or a call result)"""
    if d[0] == "val":
        return trace_back(fn, d[1])
    if d[0] == "call" and not d[1].dest[1]:
        return d[1].dest[0]
    return None


def is_error_block(fn, b):
    c = fn.call_at(b)
    return c is not None and c.d.endswith("FromResidual::from_residual")


def leads_only_to_error(fn, v, limit=6):
    """exit target that immediately propagates an error (`?`): the Break arm of a Try::branch"""
    x = v
    for _ in range(limit):
        if is_error_block(fn, x):
            return True
        if len(fn.succ[x]) != 1:
            return False
        x = fn.succ[x][0]
    return False


def signal_false_edges(fn, body, matcher):
    """edges (b, s) inside the loop body on which the signal selected by matcher(desc) is known false"""
    out = set()
    for b in body:
        if fn.term(b)[0] != "switch":
            continue
        for s in fn.succ[b]:
            r = edge_relation(fn, b, s)
            if r and r.get("truth") is False and matcher(r["desc"]):
                out.add((b, s))
    return out


def reaches_within(fn, h, target, body, avoid_edges):
    """is `target` reachable from loop header h inside one iteration (never re-entering h)
    without using avoid_edges?"""
    seen = {h}
    stack = [h]
    while stack:
        x = stack.pop()
        if x == target:
            return True
        for s in fn.succ[x]:
            if s not in body or s == h or s in seen or (x, s) in avoid_edges:
                continue
            seen.add(s)
            stack.append(s)
    return target in seen


def analyse_native_loop(prog, fn, h, body):
    """returns (signals:list[str], exits:list[(u,v,missing)])"""
    calls = [c for c in fn.calls if c.bb in body]
    ar = [c for c in calls if c.is_("Database::apply_rebuild")]
    if not ar:
        return None
    signals = {}  # name -> matcher

    def local_matcher(loc):
        return lambda d: desc_local(fn, d) == loc

    def changed_matcher(d):
        if d[0] != "call" or not d[1].is_("ContainerRebuildSummary::changed"):
            return False
        at = fn.origins(d[1].args[0])
        return any(a[0] == "call" and a[1].endswith("Database::rebuild_containers") for a in at)

    for c in ar:
        signals["apply_rebuild"] = local_matcher(c.dest[0])
    for c in calls:
        if c.is_("Database::refresh_rows_for_values"):
            signals["refresh_rows_for_values"] = local_matcher(c.dest[0])
        if c.is_("Database::rebuild_containers"):
            signals["containers.changed"] = changed_matcher
    res = []
    for (u, v) in loop_exits(fn, body):
        if leads_only_to_error(fn, v):
            continue
        missing = []
        for name, m in signals.items():
            fe = signal_false_edges(fn, body, m)
            # the exit edge itself may be the false edge
            if (u, v) in fe:
                fe = fe  # reaching u is allowed; the edge proves falsity
                # every other path to u is irrelevant: taking (u,v) implies the signal is false
                continue
            if not fe or reaches_within(fn, h, u, body, fe):
                missing.append(name)
        res.append((u, v, missing))
    return sorted(signals), res


def accumulator_local(fn, h, body):
    """if the loop exits on `!X` for a bool local X: return (X, exit_edges)"""
    outs = []
    for (u, v) in loop_exits(fn, body):
        if leads_only_to_error(fn, v):
            continue
        r = edge_relation(fn, u, v)
        if r and r.get("truth") is False and r["desc"][0] == "val":
            l = trace_back(fn, r["desc"][1])
            outs.append((u, v, l))
        else:
            outs.append((u, v, None))
    return outs


def analyse_accumulator_loop(prog, fn, h, body):
    """`while changed { changed = false; ... changed |= run(..).changed ... }`"""
    exits = accumulator_local(fn, h, body)
    if not exits:
        return None
    xs = {l for (_, _, l) in exits}
    if len(xs) != 1 or None in xs:
        return None
    X = next(iter(xs))
    if fn.locals[X] != "bool":
        return None
    # region: loop blocks + closures created in them
    problems = []
    n_calls = 0
    closures = [(i, j, name, ops) for (i, j, name, ops) in fn.closures_created() if i in body]

    def ors_into_x(g, call, via_closure_ops=None):
        """does g contain `T |= <call>.changed` with T resolving to X?"""
        for i, j, s in g.assigns():
            rv = s[2]
            if rv[0] != "bin" or rv[1] != "BitOr":
                continue
            srcs = g.origins(rv[2]) | g.origins(rv[3])
            if not any(a[0] == "call" and a[2] == call.bb and a[3] and a[3][-1] == "changed" for a in srcs):
                continue
            # destination
            dst = s[1]
            if via_closure_ops is None:
                if dst[0] == X and not dst[1]:
                    return True
            else:
                at = g.origins([dst[0], []])
                for a in at:
                    if a[0] == "param" and a[1] == 1 and a[2] and a[2][0].isdigit():
                        k = int(a[2][0])
                        if k < len(via_closure_ops):
                            pa = fn.origins(via_closure_ops[k])
                            if ("local", X, ()) in pa or any(p[0] in ("const",) for p in fn.origins([X, []])) and _refs_local(fn, via_closure_ops[k], X):
                                return True
        return False

    rri = rule_set_runners(prog)
    for c in fn.calls:
        if c.bb in body and c.p in rri:
            n_calls += 1
            if not ors_into_x(fn, c):
                problems.append(f"result of run_rules_impl at {c.loc} is not OR-ed into the loop flag")
    for (i, j, name, ops) in closures:
        for g in [prog.fns.get(name)] + [x for x in prog.children(prog.fns[name])] if prog.fns.get(name) else []:
            for c in g.calls:
                if c.p in rri:
                    n_calls += 1
                    if not ors_into_x(g, c, ops):
                        problems.append(f"result of run_rules_impl at {c.loc} (closure) is not OR-ed into the loop flag")
    if n_calls == 0:
        return None
    # X must be reset to false inside the loop before the body runs
    reset = any(i in body and s[1] == [X, []] and s[2][0] == "use" and s[2][1][0] == "k" and s[2][1][1] == "false" for i, j, s in fn.assigns())
    if not reset:
        problems.append("loop flag is never reset to false inside the loop")
    return X, n_calls, problems, [(u, v) for (u, v, _) in exits]


def _refs_local(fn, operand, X):
    """operand is (a copy of) `&mut X`"""
    o = operand
    for _ in range(4):
        if o[0] not in ("c", "m") or o[1][1]:
            return False
        d = fn.single_def(o[1][0])
        if d is None or d[3] != "a":
            return False
        rv = d[4]
        if rv[0] == "ref" and rv[2][0] == X and not [e for e in rv[2][1] if e != "*"]:
            return True
        if rv[0] == "use":
            o = rv[1]
            continue
        return False
    return False


class RebuildModel:
    """Computes fix-point loops, rebuilders and obligations once per program."""

    def __init__(self, prog):
        self.prog = prog
        self.fix = {}       # fn name -> list of dict(kind, header, body, good_exit_targets, findings)
        self.rebuilders = set()
        self._compute()

    def _compute(self):
        prog = self.prog
        cands = []
        for f in prog.lib_fns([BRIDGE]):
            if f.kind == "closure":
                continue
            rri = rule_set_runners(prog)
            if not (f.calls_to("Database::apply_rebuild") or any(c.p in rri for c in f.calls) or any(
                    prog.fns.get(n) and any(c.p in rri for c in prog.fns[n].calls) for _, _, n, _ in f.closures_created())):
                continue
            loops = natural_loops(f)
            entries = []
            for h, body in loops:
                nat = analyse_native_loop(prog, f, h, body)
                if nat is not None:
                    sig, exits = nat
                    entries.append({"kind": "native", "header": h, "body": body, "signals": sig,
                                    "exits": exits})
                    continue
                acc = analyse_accumulator_loop(prog, f, h, body)
                if acc is not None:
                    X, n, problems, ex = acc
                    entries.append({"kind": "accumulator", "header": h, "body": body, "flag": X, "n_calls": n,
                                    "problems": problems, "exits": [(u, v, []) for (u, v) in ex]})
            if entries:
                self.fix[f.name] = entries
                cands.append(f)
        # rebuilders: every non-error path entry->ret passes a valid fix loop exit or a rebuilder call
        changed = True
        while changed:
            changed = False
            for f in prog.lib_fns([BRIDGE]):
                if f.kind == "closure" or f.name in self.rebuilders:
                    continue
                good_edges = set()
                for e in self.fix.get(f.name, []):
                    valid = (not e.get("problems")) and all(not m for (_, _, m) in e["exits"])
                    if valid:
                        for (u, v, _) in e["exits"]:
                            good_edges.add((u, v))
                good_blocks = {c.bb for c in f.calls if c.p in self.rebuilders}
                if not good_edges and not good_blocks:
                    continue
                err_blocks = {b for b in f.live if is_error_block(f, b)}
                if not self._path_to_ret(f, [0], good_blocks | err_blocks, good_edges):
                    self.rebuilders.add(f.name)
                    changed = True

    @staticmethod
    def _path_to_ret(fn, starts, avoid_blocks, avoid_edges):
        """shortest path (list of blocks) from any start to a ret avoiding blocks/edges, else None"""
        q = deque()
        prev = {}
        for s in starts:
            if s in avoid_blocks:
                continue
            q.append(s)
            prev[s] = None
        while q:
            x = q.popleft()
            if fn.term(x)[0] == "ret":
                path = [x]
                while prev[path[-1]] is not None:
                    path.append(prev[path[-1]])
                return list(reversed(path))
            for s in fn.succ[x]:
                if s in prev or s in avoid_blocks or (x, s) in avoid_edges:
                    continue
                prev[s] = x
                q.append(s)
        return None

    # ------------------------------------------------------------------ obligations
    def eq_edges(self, fn, acquire_bbs):
        """edges on which `len(uf_table) before == after` holds, for len() calls bracketing an acquire"""
        out = set()
        lens = []
        for c in fn.calls:
            if c.is_("WrappedTable::len", "Table::len"):
                at = fn.origins(c.args[0])
                ok = False
                for a in at:
                    if a[0] == "call" and a[1].endswith("Database::get_table"):
                        g = fn.call_at(a[2])
                        ta = fn.origins(g.args[1])
                        if any(x[0] == "param" and x[2] and x[2][-1] == "uf_table" for x in ta):
                            ok = True
                if ok:
                    lens.append(c)
        if len(lens) < 2:
            return out
        for b in fn.live:
            t = fn.term(b)
            if t[0] != "switch":
                continue
            for s in fn.succ[b]:
                r = edge_relation(fn, b, s)
                if not r or r.get("rel") != "Eq":
                    continue
                la = {a[2] for a in fn.origins(r["a"]) if a[0] == "call" and any(a[2] == c.bb for c in lens)}
                lb = {a[2] for a in fn.origins(r["b"]) if a[0] == "call" and any(a[2] == c.bb for c in lens)}
                if len(la) == 1 and len(lb) == 1 and la != lb:
                    x, y = next(iter(la)), next(iter(lb))
                    # one before every acquire, the other after
                    for A in acquire_bbs:
                        if (fn.dominates(x, A) and fn.dominates(A, y)) or (fn.dominates(y, A) and fn.dominates(A, x)):
                            out.add((b, s))
        return out

    def obligations(self):
        """Propagate: returns dict fn name -> dict(status, acquires, path, ...)
        status: 'discharged' | 'propagates' | 'mixed' (violation) | 'rebuilder'"""
        prog = self.prog
        status = {}
        obligated = {}  # fn name -> True if returning with obligation possible (propagates)
        fns = [f for f in prog.lib_fns([BRIDGE, "egglog"])]
        byname = {f.name: f for f in fns}

        def acquiring_calls(f):
            out = []
            for c in f.calls:
                if c.is_(*GROW) and c.p.startswith("egglog_core_relations::"):
                    out.append((c, "GROW " + c.p.rsplit("::", 1)[1]))
                elif obligated.get(c.p):
                    out.append((c, "calls " + c.p))
            # closures created here that (transitively) propagate
            for (i, j, name, ops) in f.closures_created():
                if obligated.get(name):
                    out.append((f.call_at(i) or _FakeCall(f, i), "creates closure " + name))
            return out

        changed = True
        rounds = 0
        while changed and rounds < 12:
            changed = False
            rounds += 1
            for f in fns:
                if f.name in self.rebuilders:
                    status[f.name] = {"status": "rebuilder"}
                    continue
                # closures nested in a rebuilder are exempt
                if f.kind == "closure" and f.root in self.rebuilders:
                    status[f.name] = {"status": "in-rebuilder"}
                    continue
                acq = acquiring_calls(f)
                if not acq:
                    continue
                A = [c.bb for c, _ in acq]
                dis_blocks = {c.bb for c in f.calls if c.p in self.rebuilders or self._must_rebuild(byname.get(c.p))}
                eq = self.eq_edges(f, A)
                starts = []
                for c, why in acq:
                    starts.extend(self._acquire_points(f, c, byname))
                path = self._path_to_ret(f, starts, dis_blocks, eq)
                any_discharge = bool(dis_blocks or eq)
                if path is None:
                    st = "discharged"
                elif any_discharge:
                    st = "mixed"
                else:
                    st = "propagates"
                new = {"status": st, "acquires": [(c.loc, why) for c, why in acq], "path": path,
                       "discharge_calls": sorted(f.call_at(b).p for b in dis_blocks), "eq_edges": sorted(eq)}
                if status.get(f.name, {}).get("status") != st:
                    changed = True
                status[f.name] = new
                want = st == "propagates"
                if obligated.get(f.name, False) != want:
                    obligated[f.name] = want
                    changed = True
        return status

    def _must_rebuild(self, g):
        if g is None:
            return False
        pred = lambda c: c.p in self.rebuilders
        pred.__name__ = "rebuilder"
        key = ("mr", g.name)
        if key not in self.__dict__.setdefault("_mr", {}):
            self._mr[key] = self.prog.must_call(g, self._pred(), depth=2)
        return self._mr[key]

    def _pred(self):
        if not hasattr(self, "_pred_fn"):
            rb = self.rebuilders
            self._pred_fn = lambda c: c.p in rb
        return self._pred_fn

    def _acquire_points(self, f, c, byname):
        """blocks from which the obligation is live: normally the call's successor; if the callee only
        acquires on its Ok path and the result is piped into `?`, the Continue arm."""
        if c.target is None:
            return []
        g = byname.get(c.p)
        if g is not None and self._ok_only(g):
            t = f.call_at(c.target)
            if t is not None and t.d.endswith("Try::branch") and t.target is not None:
                sw = t.target
                term = f.term(sw)
                if term[0] == "switch":
                    for v, tb in term[2]:
                        if v == "0":
                            return [tb]
        return [c.target]

    def _ok_only(self, g):
        """after any GROW/obligated call in g, every reachable return value is built as Ok(..)"""
        if not g.locals[0].startswith("core::result::Result"):
            return False
        acq = [c for c in g.calls if c.is_(*GROW)]
        if not acq:
            return False
        reach = set()
        for c in acq:
            if c.target is not None:
                reach |= {c.target} | g.reach(c.target)
        for i, j, s in g.assigns():
            if i in reach and s[1] == [0, []]:
                rv = s[2]
                if not (rv[0] == "agg" and rv[2] == "core::result::Result" and rv[3] == "Ok"):
                    return False
        for c in g.calls:
            if c.bb in reach and c.dest == [0, []]:
                return False
        return True


class _FakeCall:
    def __init__(self, fn, bb):
        self.fn = fn
        self.bb = bb
        self.p = "<closure-creation>"
        self.target = fn.succ[bb][0] if fn.succ[bb] else None
        self.line = fn.line
        self.loc = fn.loc

    def is_(self, *a):
        return False


def path_lines(fn, path):
    out = []
    for b in path or []:
        t = fn.term(b)
        if t[0] in ("call",):
            out.append(f"bb{b}@L{t[6]}:{t[1]['p'].rsplit('::', 1)[-1]}")
        elif t[0] == "switch":
            out.append(f"bb{b}@L{t[4]}:switch")
        elif t[0] == "ret":
            out.append(f"bb{b}@L{t[1]}:return")
    return out
