"""Rules about how query constraints travel from the planner to the executor and how they are evaluated
(shared by C02, C03 and C16).

  R-CONSTRAINT-EVAL     every evaluator that switches on `Constraint` compares with the operator its variant names
  R-CONSTRAINTS-APPLIED every subset the join executor narrows an atom to went through the constraints of that scan
  R-CONSTRAINTS-PLANNED every scan the stage compiler builds takes its constraints from the once-per-atom helper,
                        which hands out the atom's slow constraints the first time; fusing stages keeps them
  R-CONSTRAINT-PARTITION process_constraints drops a constraint from the slow list only after adding it to the fast
                        list and narrowing the header subset by it
  R-TRIE-CACHE          a cached child trie node is only returned when the edge constraints it was built with are the
                        ones asked for; re-using a node in place clears both of its caches
  R-ROOT-HEADERS        the root subset of an atom is intersected with every header; the shared-root key is built from
                        every header's constraints
"""
from ..util import guards, edge_relation, match_arms, arm_region, cmp_kind, fmt_atoms

CONSTRAINT = "egglog_core_relations::table_spec::Constraint"
EXPECT_REL = {"Eq": "Eq", "EqConst": "Eq", "LtConst": "Lt", "GtConst": "Gt", "LeConst": "Le", "GeConst": "Ge"}
EXEC = "egglog_core_relations::free_join::execute::"
PLAN = "egglog_core_relations::free_join::plan::"


class Anchors:
    """the functions the rules are anchored at, found by name or — after a pure rename — by role (fail closed)"""

    def __init__(self, prog):
        def has_call(g, *suf):
            return any(c.p.endswith(suf) for c in g.calls)

        def builds(g, adt, variant=None):
            for i, j, s in g.assigns():
                rv = s[2]
                if rv[0] == "agg" and rv[1] == "adt" and rv[2].endswith(adt) and (variant is None or rv[3] == variant):
                    return True
            return False
        in_exec = lambda g: g.name.startswith(EXEC)  # noqa: E731
        in_plan = lambda g: g.name.startswith(PLAN)  # noqa: E731
        self.run_plan = prog.need_role(EXEC + "JoinState::run_plan", lambda g: in_exec(g) and has_call(g, "FrameUpdates::refine_atom_dense") and has_call(g, "::scan_project"),
                                       "the join executor (narrows atoms and scans covers)")
        self.refine_subset = prog.need_role(EXEC + "JoinState::run_plan::refine_subset", lambda g: in_exec(g) and has_call(g, "Table::refine_ref") and g.argc == 5,
                                            "the helper that filters a probed subset through Table::refine_ref")
        self.get_child = prog.need_role(EXEC + "TrieNode::get_cached_trie_node", lambda g: in_exec(g) and has_call(g, "TrieNode::new") and has_call(g, "RwLock::write"),
                                        "the child-node cache of TrieNode")
        self.insert_subset = prog.need_role(EXEC + "BindingInfo::insert_subset", lambda g: in_exec(g) and has_call(g, "Arc::get_mut") and has_call(g, "TrieNode::new"),
                                            "the in-place node re-use of BindingInfo")
        self.build_root = prog.need_role(EXEC + "JoinState::build_root_subset", lambda g: in_exec(g) and has_call(g, "Table::all") and has_call(g, "Subset::intersect") and g.argc == 3,
                                         "the root-subset builder")
        self.root_node = prog.need_role(EXEC + "JoinState::root_node", lambda g: in_exec(g) and has_call(g, "TrieCache::base_id"), "the shared-root lookup")
        self.take = prog.need_role(PLAN + "compile_stage::take_atom_constraints_if_new", lambda g: in_plan(g) and has_call(g, "PlanningState::mark_atom_constrained"),
                                   "the once-per-atom constraint helper")
        self.compile_stage = prog.need_role(PLAN + "compile_stage", lambda g: in_plan(g) and builds(g, "plan::JoinStage", "FusedIntersect") and not has_call(g, "PlanningState::mark_atom_constrained") and builds(g, "plan::ScanSpec"),
                                            "the stage compiler (builds JoinStage::FusedIntersect from a StageInfo)")
        self.fuse = prog.need_role(PLAN + "fuse_single_scans", lambda g: in_plan(g) and has_call(g, "Vec::remove") and g.argc == 1 and "JoinStage" in g.locals[1], "the single-scan fuser")
        self.plan_headers = prog.need_role(PLAN + "plan_headers", lambda g: in_plan(g) and builds(g, "plan::JoinHeader") and g.kind != "closure" and not g.derived, "the header planner")
        self.process = prog.need_role("egglog_core_relations::free_join::Database::process_constraints", lambda g: has_call(g, "::split_fast_slow"), "the fast/slow constraint splitter")


# ---------------------------------------------------------------------------------------------------------------
def cross_origins(prog, f, operand, depth=0, seen=None):
    """Fn.origins, continued through closure captures: a ('param', 1, (k, *rest)) atom of a closure is resolved at the
    closure's creation site in its parent and `rest` is appended to the symbolic paths found there.
    Returns a set of (fn_name, atom)."""
    if seen is None:
        seen = set()
    out = set()
    for a in f.origins(operand):
        out |= _cross_atom(prog, f, a, depth, seen)
    return out


def _cross_atom(prog, f, a, depth, seen):
    key = (f.name, a)
    if key in seen or depth > 8:
        return set()
    seen.add(key)
    if a[0] == "param" and a[1] == 1 and f.kind == "closure" and a[2] and a[2][0].isdigit():
        par = prog.fns.get(f.parent)
        if par is not None:
            for (bi, bj, name, ops) in par.closures_created():
                if name == f.name and int(a[2][0]) < len(ops):
                    res = set()
                    rest = tuple(a[2][1:])
                    for (fn_name, b) in cross_origins(prog, par, ops[int(a[2][0])], depth + 1, seen):
                        res.add((fn_name, _extend(b, rest)))
                    return res
    return {key}


def _extend(atom, rest):
    if not rest:
        return atom
    k = atom[0]
    if k == "param":
        return (k, atom[1], tuple(atom[2]) + rest)
    if k == "call":
        return (k, atom[1], atom[2], tuple(atom[3]) + rest)
    if k in ("local", "var"):
        return (k, atom[1], tuple(atom[2]) + rest)
    return atom


def atom_path(a):
    if a[0] == "param":
        return tuple(a[2])
    if a[0] == "call":
        return tuple(a[3])
    if a[0] in ("local", "var"):
        return tuple(a[2])
    return None


# ---------------------------------------------------------------------------------------------------------------
def check_constraint_eval(chk, prog, R=None):
    R = R or chk.rule("R-CONSTRAINT-EVAL", "every function or closure that switches on the variant of a table_spec::Constraint and compares Values in its arms uses, in the arm of "
                      "variant V, the comparison V names (Eq, EqConst -> ==; LtConst -> <; GtConst -> >; LeConst -> <=; GeConst -> >=) with the row's column value on the left "
                      "and the constraint's constant (for Eq: the other column) on the right")
    n_fn = 0
    for f in prog.lib_fns(["egglog_core_relations"]):
        if f.derived or f.name.startswith("<" + CONSTRAINT + " as "):
            continue  # derived PartialEq/Ord/Hash of Constraint itself compare constraints, not rows
        arms_list = match_arms(prog, f, CONSTRAINT)
        for (sw, arms, otherwise, place) in arms_list:
            if len(arms) < 6:
                continue
            per = {}
            for v, succ in arms.items():
                reg = arm_region(f, sw, succ)
                # the arm's own blocks: reachable from succ without passing through the join block of all arms
                others = {s for vv, s in arms.items() if vv != v}
                reg = {b for b in ({succ} | f.reach(succ)) if b not in others}
                # stop at the first block shared by all arms (post-dominator of the switch)
                shared = None
                for b in sorted(f.pdom.get(sw, ())):
                    pass
                cmps = []
                for c in f.calls:
                    if c.bb not in reg:
                        continue
                    k = cmp_kind(c)
                    if k is None or len(c.args) != 2:
                        continue
                    # the call must sit in this arm only
                    if any(c.bb == s or c.bb in f.reach(s) for s in others if s != succ) and not _only_via(f, sw, succ, c.bb):
                        continue
                    cmps.append((k, c))
                per[v] = cmps
            if not all(per.get(v) for v in EXPECT_REL):
                continue  # not an evaluator (e.g. a classifier that returns columns)
            n_fn += 1
            for v, cmps in per.items():
                want = EXPECT_REL[v]
                for (k, c) in cmps:
                    a0 = f.origins(c.args[0])
                    a1 = f.origins(c.args[1])
                    left_is_const = any(atom_path(a) and atom_path(a)[-1:] == ("val",) for a in a0)
                    right_is_const = any(atom_path(a) and atom_path(a)[-1:] == ("val",) for a in a1)
                    rel = k
                    if left_is_const and not right_is_const:
                        rel = {"Lt": "Gt", "Gt": "Lt", "Le": "Ge", "Ge": "Le"}.get(k, k)
                    ok = rel == want
                    if v != "Eq":
                        ok = ok and (left_is_const != right_is_const)
                    chk.judge(ok, R, f"{f.name}:{v}", f"variant {v} evaluated with {want}",
                              f"the {v} arm compares with {k}{' (operands swapped)' if left_is_const else ''}: rows are kept or dropped by the wrong relation (expected {want})", c.loc)
    chk.floor(R, n_fn, 2, "constraint evaluators (SortedWritesTable::eval_constraints, uf::eval_constraint)")


def _only_via(f, sw, succ, bb):
    """bb is unreachable from the switch once the edge sw->succ is removed"""
    seen = {sw}
    stack = [s for s in f.succ[sw] if s != succ]
    while stack:
        x = stack.pop()
        if x == bb:
            return False
        if x in seen:
            continue
        seen.add(x)
        stack.extend(f.succ[x])
    return True


# ---------------------------------------------------------------------------------------------------------------
def _ends_with_constraints(atoms):
    """every origin is a load of a `.cs` / `.constraints` field of a scan spec"""
    if not atoms:
        return False
    for (_fn, a) in atoms:
        p = atom_path(a)
        if not p or p[-1] not in ("cs", "constraints"):
            return False
    return True


def check_constraints_applied(chk, prog):
    R = chk.rule("R-CONSTRAINTS-APPLIED", "JoinState::run_plan and its closures: (a) every subset handed to FrameUpdates::refine_atom_subset is the result of refine_subset, every node handed to "
                 "refine_atom comes from TrieNode::get_cached_trie_node whose miss-closure calls refine_subset; (b) the constraints argument of every refine_subset / get_cached_trie_node / "
                 "scan_project call is loaded from the `cs` / `constraints` field of the stage's scan spec (never an empty or constant slice); (c) refine_subset copies the subset unfiltered "
                 "only when the constraint list is empty and no liveness check is needed, and otherwise calls Table::refine_ref with the same constraints")
    A = Anchors(prog)
    f = A.run_plan
    RS, GC = A.refine_subset.name, A.get_child.name
    reg = prog.region(f)
    n_sub = n_node = n_cs = 0
    for h in reg:
        short = h.name[len(EXEC):]
        for c in h.calls:
            if c.p.endswith("FrameUpdates::refine_atom_subset"):
                n_sub += 1
                at = h.origins(c.args[2])
                ok = bool(at) and all(a[0] == "call" and a[1] == RS for a in at)
                chk.judge(ok, R, f"{_role(prog, h)}:refine_atom_subset", "atom narrowed to a subset that went through refine_subset",
                          f"an atom is narrowed to a subset that did not go through refine_subset (origin: {fmt_atoms(at)}): the scan's slow constraints and the liveness filter are skipped", c.loc)
            elif c.p.endswith("FrameUpdates::refine_atom"):
                n_node += 1
                at = h.origins(c.args[2])
                ok = bool(at) and all(a[0] == "call" and a[1] == GC for a in at)
                chk.judge(ok, R, f"{_role(prog, h)}:refine_atom", "atom narrowed to a cached child node built by get_cached_trie_node",
                          f"an atom is narrowed to a trie node that was not produced by get_cached_trie_node (origin: {fmt_atoms(at)})", c.loc)
            if c.p == RS:
                n_cs += 1
                at = cross_origins(prog, h, c.args[1])
                chk.judge(_ends_with_constraints(at), R, f"{_role(prog, h)}:refine_subset:constraints", "constraints come from the scan spec",
                          f"refine_subset is called with constraints that are not the scan spec's own (origin: {fmt_atoms({a for _, a in at})})", c.loc)
            elif c.p == GC:
                n_cs += 1
                at = cross_origins(prog, h, c.args[3])
                ok = _ends_with_constraints(at)
                # the miss closure must compute the subset through refine_subset
                ca = h.origins(c.args[5])
                cl = [a for a in ca if a[0] == "closure"]
                ok2 = bool(cl) and all(any(cc.p == RS for cc in prog.fns[a[1]].calls) for a in cl if a[1] in prog.fns)
                chk.judge(ok and ok2, R, f"{_role(prog, h)}:get_cached_trie_node", "cache key carries the scan's constraints and the miss path filters by them",
                          "get_cached_trie_node is keyed without the scan's constraints, or its miss closure does not filter through refine_subset", c.loc)
            elif c.p.endswith("::scan_project") and "WrappedTable" in c.p:
                n_cs += 1
                at = cross_origins(prog, h, c.args[5])
                chk.judge(_ends_with_constraints(at), R, f"{_role(prog, h)}:scan_project:constraints", "cover scan filtered by the cover's constraints",
                          f"scan_project is called with constraints that are not the cover's own (origin: {fmt_atoms({a for _, a in at})})", c.loc)
    chk.floor(R, n_sub, 7, "refine_atom_subset sites in run_plan")
    chk.floor(R, n_node, 5, "refine_atom sites in run_plan")
    chk.floor(R, n_cs, 20, "constraint-carrying calls in run_plan")
    # (c) refine_subset itself
    g = A.refine_subset
    copies = [c for c in g.calls if c.p.endswith("::to_owned") or c.p.endswith("SubsetRef::to_owned")]
    refs = [c for c in g.calls if c.p.endswith("::refine_ref")]
    ok_copy = bool(copies)
    for c in copies:
        gs = guards(g, c.bb)
        empty = any(x.get("truth") is True and x["desc"][0] == "call" and x["desc"][1].p.endswith("::is_empty") and
                    any(a[0] == "param" and a[1] == 2 for a in g.origins(x["desc"][1].args[0])) for x in gs)
        nolive = any(x.get("truth") is False and x["desc"][0] == "val" and
                     any(a[0] == "param" and (a[1] == 4 or a[2][-1:] == ("can_be_stale",)) for a in _bool_sources(g, x["desc"][1])) for x in gs)
        ok_copy = ok_copy and empty and nolive
    chk.judge(ok_copy, R, "refine_subset:unfiltered-copy", "unfiltered copy only for an empty constraint list with no liveness check needed",
              "refine_subset returns the subset unfiltered although constraints are present or stale rows may be included", g.loc)
    ok_ref = bool(refs) and all(any(a[0] == "param" and a[1] == 2 for a in g.origins(c.args[2])) for c in refs)
    live_ok = False
    for c in refs:
        src = _bool_sources(g, c.args[3])
        if any(s[0] == "param" and s[1] == 1 and s[2][-1:] == ("can_be_stale",) for s in src) and any(s[0] == "param" and s[1] == 4 for s in src) \
           and all(s[1].startswith("false") for s in src if s[0] == "const"):
            live_ok = True
    chk.judge(ok_ref and live_ok, R, "refine_subset:refine_ref", "refine_ref gets the caller's constraints and need_live = can_be_stale && has_stale",
              "refine_subset does not pass its constraints / liveness requirement on to Table::refine_ref", g.loc)


def _bool_sources(f, operand, depth=0):
    """origins of a bool, looking through the short-circuit lowering of `a && b` (a phi of constants and b)"""
    out = set()
    for a in f.origins(operand):
        out.add(a)
    # short-circuit: the local is assigned in blocks guarded by the other operand
    from ..util import trace_back
    l = trace_back(f, operand) if operand[0] in ("c", "m") else None
    if l is not None:
        for (bb, idx, dproj, kind, payload) in f.defs.get(l, []):
            for g in guards(f, bb):
                if "desc" in g and g["desc"][0] == "val":
                    out |= f.origins(g["desc"][1])
    return out


def _role(prog, h):
    """stable name of a closure inside run_plan: the chain of (callee, argument position) it is passed to"""
    if h.kind != "closure":
        return h.name[len(EXEC):] if h.name.startswith(EXEC) else h.name
    par = prog.fns.get(h.parent)
    role = "closure"
    if par is not None:
        for (bi, bj, name, ops) in par.closures_created():
            if name == h.name:
                # which call consumes it
                for c in par.calls:
                    for ai, a in enumerate(c.args):
                        if a[0] in ("c", "m") and not a[1][1]:
                            if any(x[0] == "closure" and x[1] == h.name for x in par.origins(a)):
                                role = f"closure->{c.p.rsplit('::', 1)[-1]}#{ai}"
                # disambiguate by the stage variant the creating block is guarded by
                for g in guards(par, bi):
                    if "variant" in g:
                        role += f"@{'/'.join(g['variant'])}"
                        break
        return _role(prog, par) + "::" + role
    return h.name


def _nth(prog, par, h):
    sibs = sorted(n for (_, _, n, _) in par.closures_created())
    # ordinal among the parent's closures (source order), only used to keep keys distinct
    return f"[{sibs.index(h.name)}]" if h.name in sibs else ""


# ---------------------------------------------------------------------------------------------------------------
def check_constraints_planned(chk, prog):
    R = chk.rule("R-CONSTRAINTS-PLANNED", "plan.rs: (a) the once-per-atom helper returns the atom's `constraints.slow` on the branch where the atom was not yet marked and marks it there; "
                 "(b) every ScanSpec / SingleScanSpec built by compile_stage takes its constraints from that helper; (c) fuse_single_scans moves the fused stage's constraints, "
                 "columns and bindings into the surviving stage; (d) plan_headers emits a header carrying `fast` and `subset` of the same atom whenever `fast` is non-empty")
    A = Anchors(prog)
    take = A.take
    marks = [c for c in take.calls if c.p.endswith("PlanningState::mark_atom_constrained")]
    tests = [c for c in take.calls if c.p.endswith("PlanningState::is_atom_constrained")]
    ret_slow = False
    ret_default_guarded = True
    for (bb, idx, dproj, kind, payload) in take.defs.get(0, []):
        if kind == "call":
            c = payload
            if c.p.endswith("Clone>::clone") or c.p.endswith("Clone::clone"):
                at = take.origins(c.args[0])
                if any(atom_path(a) and atom_path(a)[-2:] == ("constraints", "slow") for a in at):
                    gs = guards(take, bb)
                    if any(x.get("truth") is False and x["desc"][0] == "call" and x["desc"][1].p.endswith("is_atom_constrained") for x in gs) and \
                       any(m.bb == bb or take.dominates(m.bb, bb) or bb in take.reach(m.bb) for m in marks):
                        ret_slow = True
            elif "default" in c.p.lower() or c.p.endswith("Vec::new"):
                gs = guards(take, bb)
                if not any(x.get("truth") is True and x["desc"][0] == "call" and x["desc"][1].p.endswith("is_atom_constrained") for x in gs):
                    ret_default_guarded = False
    chk.judge(bool(marks) and bool(tests) and ret_slow and ret_default_guarded, R, "take_atom_constraints_if_new", "slow constraints handed out exactly on the first visit of an atom",
              "the once-per-atom helper does not return the atom's slow constraints on first visit (or returns nothing without the atom having been constrained before)", take.loc)
    cs = A.compile_stage
    n = 0
    for i, j, s in cs.assigns():
        rv = s[2]
        if rv[0] == "agg" and rv[1] == "adt" and rv[2].endswith(("plan::ScanSpec", "plan::SingleScanSpec")):
            adt = prog.adts.get(rv[2])
            fields = [fd["name"] for fd in adt["variants"][0]["fields"]] if adt else []
            fi = next((k for k, nm in enumerate(fields) if nm in ("constraints", "cs")), None)
            if fi is None:
                continue
            n += 1
            at = cs.origins(rv[4][fi])
            ok = bool(at) and all(a[0] == "call" and a[1] == take.name for a in at)
            chk.judge(ok, R, f"compile_stage:{rv[2].rsplit('::', 1)[-1]}#{n}", "scan constraints come from the once-per-atom helper",
                      f"a scan is built with constraints that do not come from take_atom_constraints_if_new (origin: {fmt_atoms(at)})", f"{cs.file}:{s[3] if len(s) > 3 else cs.line}")
    for h in prog.children(cs):
        for i, j, s in h.assigns():
            rv = s[2]
            if rv[0] == "agg" and rv[1] == "adt" and rv[2].endswith(("plan::ScanSpec", "plan::SingleScanSpec")):
                adt = prog.adts.get(rv[2])
                fields = [fd["name"] for fd in adt["variants"][0]["fields"]] if adt else []
                fi = next((k for k, nm in enumerate(fields) if nm in ("constraints", "cs")), None)
                if fi is None:
                    continue
                n += 1
                at = h.origins(rv[4][fi])
                ok = bool(at) and all(a[0] == "call" and a[1] == take.name for a in at)
                chk.judge(ok, R, f"compile_stage:{rv[2].rsplit('::', 1)[-1]}#{n}", "scan constraints come from the once-per-atom helper",
                          f"a scan is built with constraints that do not come from take_atom_constraints_if_new (origin: {fmt_atoms(at)})", h.loc)
    chk.floor(R, n, 3, "ScanSpec / SingleScanSpec aggregates in compile_stage")
    # (c) fuse_single_scans
    fz = A.fuse
    moved = set()
    for c in fz.calls:
        if c.p.endswith("::extend") and len(c.args) >= 2:
            dst = fz.origins(c.args[0])
            for a in dst:
                p = atom_path(a)
                if p:
                    for fld in ("constraints", "vars", "bind"):
                        if fld in p:
                            moved.add(fld)
            # bind_j is a destructured reference: recognise by variable name too
            l = c.args[0][1][0] if c.args[0][0] in ("c", "m") else None
    # fall back on variable names of the destructured bindings
    names = set(fz.varnames.values())
    for c in fz.calls:
        if c.p.endswith("::extend") and c.args and c.args[0][0] in ("c", "m"):
            for a in fz.origins(c.args[0]):
                if a[0] in ("local", "param", "call") and atom_path(a):
                    for fld in ("constraints", "vars", "bind"):
                        if fld in atom_path(a):
                            moved.add(fld)
    chk.judge({"constraints", "vars", "bind"} <= moved, R, "fuse_single_scans:moves", "fused stage's constraints, columns and bindings are carried over",
              f"fuse_single_scans carries over only {sorted(moved)} of the removed stage (constraints, vars and bind are all needed)", fz.loc)
    # (d) plan_headers
    ph = A.plan_headers
    okh = False
    for i, j, s in ph.assigns():
        rv = s[2]
        if rv[0] == "agg" and rv[1] == "adt" and rv[2].endswith("plan::JoinHeader"):
            adt = prog.adts.get(rv[2])
            fields = [fd["name"] for fd in adt["variants"][0]["fields"]]
            fo = {nm: ph.origins(rv[4][k]) for k, nm in enumerate(fields)}
            c_ok = any(atom_path(a) and atom_path(a)[-2:] == ("constraints", "fast") for a in fo.get("constraints", ())) or \
                any(a[0] == "call" and a[1].endswith("Pooled::cloned") and any(atom_path(b) and atom_path(b)[-2:] == ("constraints", "fast") for b in ph.origins(ph.call_at(a[2]).args[0])) for a in fo.get("constraints", ()))
            s_ok = any(atom_path(a) and atom_path(a)[-2:] == ("constraints", "subset") for a in fo.get("subset", ()))
            g_ok = any(x.get("truth") is False and x["desc"][0] == "call" and x["desc"][1].p.endswith("::is_empty") for x in guards(ph, i))
            okh = c_ok and s_ok and g_ok
    chk.judge(okh, R, "plan_headers:header", "a header with the atom's fast constraints and their subset is emitted whenever fast is non-empty",
              "plan_headers does not emit the atom's fast constraints with their pre-computed subset (constant constraints would be dropped)", ph.loc)


# ---------------------------------------------------------------------------------------------------------------
def check_partition(chk, prog):
    R = chk.rule("R-CONSTRAINT-PARTITION", "Database::process_constraints: the closure passed to slow.retain returns false (drops a constraint from the slow list) only on a path that "
                 "pushed the constraint onto `fast` and narrowed `subset` (intersect with the index hit, or Subset::empty() on a miss)")
    f = Anchors(prog).process
    cl = None
    for (bi, bj, name, ops) in f.closures_created():
        par_call = f.call_at(bi)
        g = prog.fns.get(name)
        if g is not None and any(c.p.endswith("::retain") for c in f.calls if any(a[0] == "closure" and a[1] == name for x in c.args for a in f.origins(x))):
            cl = g
    if cl is None:
        chk.missing(R, "closure passed to slow.retain in process_constraints")
        return
    falses = []
    for (bb, idx, dproj, kind, payload) in cl.defs.get(0, []):
        if kind == "a" and payload[0] == "use" and payload[1][0] == "k" and payload[1][1].startswith("false"):
            falses.append(bb)
    pushes = [c for c in cl.calls if c.p.endswith("::push")]
    narrows = [c for c in prog.region(cl) for c in c.calls if c.p.endswith("Subset::intersect")]
    empties = [c for c in cl.calls if c.p.endswith("Subset::empty")]
    ok = bool(falses) and bool(pushes) and bool(narrows) and bool(empties)
    for b in falses:
        ok = ok and any(cl.dominates(p.bb, b) for p in pushes)
        # every path to the false return passes a narrowing (intersect closure call or empty())
        nb = set()
        for c in cl.calls:
            if c.p.endswith("Subset::empty") or any(a[0] == "closure" for x in c.args for a in cl.origins(x)):
                nb.add(c.bb)
        from .rebuild_common import RebuildModel
        path = RebuildModel._path_to_ret(cl, [0], nb, set())
        # path avoiding narrowing that reaches the `false` block?
        reach = cl.reach_avoiding_from_entry(nb)
        ok = ok and (b not in reach)
    chk.judge(ok, R, "process_constraints:retain", "a constraint leaves the slow list only after being added to fast and applied to the subset",
              "process_constraints drops a constraint from the slow list on a path that does not add it to `fast` and narrow the subset: the constraint is never evaluated", cl.loc)


# ---------------------------------------------------------------------------------------------------------------
def check_trie_cache(chk, prog):
    R = chk.rule("R-TRIE-CACHE", "TrieNode::get_cached_trie_node returns a cached child only under `stored constraints == edge_cs` and stores edge_cs with every inserted child; "
                 "BindingInfo::insert_subset, when it re-uses a node in place, clears cached_subsets and cached_children before overwriting subset; TrieNode.subset has no other writer")
    A = Anchors(prog)
    f = A.get_child
    hits = 0
    bad = 0
    for (bb, idx, dproj, kind, payload) in f.defs.get(0, []):
        if kind != "call":
            continue
        c = payload
        if not (c.p.endswith("Clone>::clone") or c.p.endswith("Clone::clone")):
            continue
        at = f.origins(c.args[0])
        if not any(a[0] == "call" and a[1].endswith("::get") for a in at):
            continue
        hits += 1
        good = False
        for g in guards(f, bb):
            if g.get("rel") == "Eq" and "call" in g:
                oa = f.origins(g["a"]) | f.origins(g["b"])
                if any(a[0] == "param" and a[1] == 4 for a in oa) and any(a[0] == "call" and a[1].endswith("::get") for a in oa):
                    good = True
        if not good:
            bad += 1
    chk.floor(R, hits, 2, "cache-hit returns in get_cached_trie_node (read-locked and write-locked)")
    chk.judge(hits >= 2 and bad == 0, R, "get_cached_trie_node:hit-guard", "a cached child is returned only when its stored edge constraints equal the requested ones",
              f"{bad} cache-hit return(s) of get_cached_trie_node are not guarded by the comparison of the stored constraints with edge_cs: a node filtered by other constraints is reused", f.loc)
    ins = [c for c in f.calls if c.p.endswith("::insert")]
    ok_ins = False
    for c in ins:
        va = f.origins(c.args[2]) if len(c.args) > 2 else set()
        # tuple (node, Box::from(edge_cs))
        for a in va:
            if a[0] == "agg":
                st = f.stmt(a[4], a[5])
                ops = st[2][4]
                if len(ops) == 2 and any(x[0] == "param" and x[1] == 4 for x in f.origins(ops[1])):
                    ok_ins = True
    chk.judge(ok_ins, R, "get_cached_trie_node:insert-key", "inserted child is stored with the edge constraints it was built under",
              "the child cache entry does not record edge_cs", f.loc)
    # insert_subset
    g = A.insert_subset
    stores = [(i, j) for i, j, s in g.assigns() if [e for e in s[1][1] if not isinstance(e, str)][-1:] and [e for e in s[1][1] if not isinstance(e, str)][-1][2] == "subset"]
    takes = {}
    for c in g.calls:
        if c.p.endswith("OnceLock::take") or c.p.endswith("::take"):
            for a in g.origins(c.args[0]):
                p = atom_path(a)
                if p:
                    for fld in ("cached_subsets", "cached_children"):
                        if fld in p:
                            takes.setdefault(fld, []).append(c.bb)
    ok = bool(stores)
    for (i, j) in stores:
        for fld in ("cached_subsets", "cached_children"):
            ok = ok and any(g.dominates(b, i) for b in takes.get(fld, []))
    chk.judge(ok, R, "BindingInfo::insert_subset:clear-caches", "both caches are cleared before a node's subset is overwritten in place",
              "insert_subset overwrites a trie node's subset in place without clearing cached_subsets and cached_children: indexes and children of the old subset are reused", g.loc)
    writers = set()
    for h in prog.lib_fns(["egglog_core_relations"]):
        for i, j, s in h.assigns():
            pj = [e for e in s[1][1] if not isinstance(e, str)]
            if pj and pj[-1][0] == "f" and pj[-1][2] == "subset" and len(pj) >= 1:
                # the base must be a TrieNode
                from ..util import place_type_head
                base = [s[1][0], s[1][1][: len(s[1][1]) - 1 - list(reversed(s[1][1])).index(next(e for e in reversed(s[1][1]) if not isinstance(e, str)))]]
                try:
                    head = place_type_head(prog, h, base)
                except Exception:  # noqa: BLE001
                    head = None
                if head and head.endswith("execute::TrieNode"):
                    writers.add(h.root or h.name)
    chk.judge(writers <= {g.name}, R, "writers-of-TrieNode.subset", "TrieNode.subset is only overwritten by insert_subset",
              f"TrieNode.subset is overwritten in {sorted(writers)}: caches keyed on the old subset may survive", None)


# ---------------------------------------------------------------------------------------------------------------
def loop_over_param(f, param):
    """the `for x in <param>` loops of f: (next-call, Some-arm successor) whose iterator is the parameter itself
    (through into_iter / iter only — no take/skip/filter adapter)"""
    out = []
    for c in f.calls:
        if not (c.p.endswith("Iterator>::next") or c.p.endswith("Iterator::next")):
            continue
        at = f.origins(c.args[0])
        if not at or not all(a[0] == "param" and a[1] == param and not a[2] for a in at):
            continue
        sw = c.target
        if sw is None or f.term(sw)[0] != "switch":
            continue
        some = [tb for v, tb in f.term(sw)[2] if v == "1"]
        if some:
            out.append((c, some[0]))
    return out


def every_iteration_passes(f, nx, some, good):
    """no path from the Some arm back to the loop header avoids all `good` blocks"""
    if some in good:
        return True
    r = {some} | f.reach_avoiding([some], good)
    return nx.bb not in r


def check_root_headers(chk, prog):
    R = chk.rule("R-ROOT-HEADERS", "JoinState::build_root_subset intersects the whole-table subset with the subset of every header (a plain loop over the `headers` parameter; the only "
                 "early exits return None for an empty result); JoinState::root_node builds the shared-root signature from the constraints of every header (same loop shape) and "
                 "consults the shared cache only for signatures in `shared`")
    A = Anchors(prog)
    f = A.build_root
    inter = [c for c in f.calls if c.p.endswith("Subset::intersect")]
    loops = loop_over_param(f, 3)
    ok = bool(inter) and len(loops) == 1
    if ok:
        nx, some = loops[0]

        def from_header(c):
            srcs = set(f.origins(c.args[1]))
            for a in list(srcs):
                if a[0] == "call" and a[1].endswith("::as_ref"):
                    srcs |= f.origins(f.call_at(a[2]).args[0])
            return any(atom_path(a) and "subset" in atom_path(a) and a[0] == "call" and a[2] == nx.bb for a in srcs)
        good = {c.bb for c in inter if from_header(c) and any(a[0] == "call" and a[1].endswith("::all") for a in f.origins(c.args[0]))}
        ok = bool(good) and every_iteration_passes(f, nx, some, good)
        # Some(subset) is only built once the iterator is exhausted
        for (bb, idx, dproj, kind, payload) in f.defs.get(0, []):
            if kind == "a" and payload[0] == "agg" and payload[3] == "Some":
                ok = ok and (nx.bb not in f.reach(bb))
                ok = ok and any(a[0] == "call" and a[1].endswith("::all") for a in f.origins(payload[4][0]))
    chk.judge(ok, R, "build_root_subset:every-header", "root subset intersected with every header's subset",
              "build_root_subset does not intersect the root subset with every header (e.g. the semi-naive timestamp header is ignored)", f.loc)
    g = A.root_node
    loops = loop_over_param(g, 3)
    ok2 = len(loops) == 1
    if ok2:
        nx, some = loops[0]
        good = set()
        for c in g.calls:
            if c.p.endswith("::extend") and len(c.args) >= 2:
                srcs = set(g.origins(c.args[1]))
                for a in list(srcs):
                    if a[0] == "call" and a[2] != nx.bb:
                        cc = g.call_at(a[2])
                        if cc is not None and cc.args:
                            srcs |= g.origins(cc.args[0])
                if any(atom_path(a) and "constraints" in atom_path(a) and a[0] == "call" and a[2] == nx.bb for a in srcs):
                    good.add(c.bb)
        ok2 = bool(good) and every_iteration_passes(g, nx, some, good)
    gets = [c for c in g.calls if c.p.endswith("DashMap::get") or (c.p.endswith("::get") and "dashmap" in c.p)]
    ok3 = bool(gets)
    for c in gets:
        # must be on the path where shared.contains(sig) held
        ok3 = ok3 and any((x.get("truth") is True and x["desc"][0] == "call" and x["desc"][1].p.endswith("::contains")) for x in guards(g, c.bb))
    chk.judge(ok2 and ok3, R, "root_node:signature", "shared-root key covers every header's constraints; cache consulted only for shared signatures",
              "root_node's cache key ignores some header constraints, or an unshared signature is looked up in the shared cache: two plans with different constant filters share a root", g.loc)


# ---------------------------------------------------------------------------------------------------------------
def check_atom_lowering(chk, prog):
    R = chk.rule("R-ATOM-LOWERING", "QueryBuilder::add_atom: (a) the closure that maps the atom's entries to constraints returns Some(EqConst{col: <enumerate index>, val: <the constant>}) for a "
                 "QueryEntry::Const and None only for a Var; (b) when VarColumnMap::insert reports that the variable already has a column in this atom, a Constraint::Eq between the new "
                 "and the previous column is pushed onto the atom's slow constraints (repeated variables filter); (c) every variable column is recorded as an occurrence. "
                 "RuleBuilder::query_prim: the deferred closure either binds the primitive's result to a not-yet-grounded output variable or asserts equality with the expected entry — "
                 "never neither. BackendRule::query and Query::build_cached_plan visit every atom of the body.")
    f = prog.need_role("egglog_core_relations::query::QueryBuilder::add_atom",
                       lambda g: g.name.startswith("egglog_core_relations::query::") and any(c.p.endswith("Database::process_constraints") for c in g.calls), "the atom lowering of QueryBuilder")
    # (a)
    ok_a = False
    for h in prog.children(f):
        for i, j, s in h.assigns():
            rv = s[2]
            if rv[0] == "agg" and rv[1] == "adt" and rv[2] == CONSTRAINT and rv[3] == "EqConst":
                col = h.origins(rv[4][0])
                val = h.origins(rv[4][1])
                col_ok = any(a[0] == "call" and a[1].endswith("::from_usize") for a in col)
                if col_ok:
                    cc = [h.call_at(a[2]) for a in col if a[0] == "call"]
                    col_ok = all(any(x[0] == "param" and x[1] == 2 and x[2][:1] == ("0",) for x in h.origins(c.args[0])) for c in cc)
                val_ok = bool(val) and all(x[0] == "param" and x[1] == 2 and "@Const" in x[2] for x in val)
                # guarded by the Const variant of the entry; the None return by the Var variant
                g_ok = any("variant" in g and any("QueryEntry" in h.locals[g["place"][0]] or True for _ in [0]) for g in guards(h, i))
                nones = [(bb) for (bb, idx, dproj, kind, payload) in h.defs.get(0, []) if kind == "a" and payload[0] == "agg" and payload[3] == "None"]
                somes = [(bb) for (bb, idx, dproj, kind, payload) in h.defs.get(0, []) if kind == "a" and payload[0] == "agg" and payload[3] == "Some"]
                arms = match_arms(prog, h, "egglog_core_relations::action::QueryEntry")
                arm_ok = False
                for (sw, am, ow, place) in arms:
                    if "Const" in am and "Var" in am:
                        cr = arm_region(h, sw, am["Const"])
                        vr = arm_region(h, sw, am["Var"])
                        if somes and all(b in cr for b in somes) and i in cr and nones and all(b in vr for b in nones):
                            arm_ok = True
                ok_a = col_ok and val_ok and g_ok and arm_ok
    chk.judge(ok_a, R, "QueryBuilder::add_atom:const->EqConst", "a constant in column i becomes EqConst{col: i, val: the constant}",
              "a literal argument of a body atom is not lowered to an EqConst constraint on its own column (the atom would match rows with any value there)", f.loc)
    # (b)
    ok_b = False
    ins = [c for c in f.calls if c.p.endswith("VarColumnMap::insert")]
    for c in ins:
        sw = c.target
        # find the switch on the discriminant of the result
        some_regions = []
        for b in sorted(f.live):
            t = f.term(b)
            if t[0] != "switch":
                continue
            d = f.describe_operand(t[1])
            if d and d[0] == "disc" and d[1][0] == c.dest[0]:
                for v, tb in t[2]:
                    if v == "1":
                        some_regions.append((b, tb))
        for (b, tb) in some_regions:
            reg = arm_region(f, b, tb)
            for p in f.calls:
                if p.bb in reg and p.p.endswith("::push"):
                    dst = f.origins(p.args[0])
                    val = f.origins(p.args[1])
                    if any(atom_path(a) and atom_path(a)[-1:] == ("slow",) for a in dst) and any(a[0] == "agg" and a[3] == "Eq" and a[2] == CONSTRAINT for a in val):
                        # the Eq's two columns: the new column and the previous one returned by insert
                        for a in val:
                            if a[0] == "agg":
                                st = f.stmt(a[4], a[5])
                                o1, o2 = f.origins(st[2][4][0]), f.origins(st[2][4][1])
                                both = o1 | o2
                                if any(x[0] == "call" and x[2] == c.bb for x in both) and any(x[0] == "call" and x[1].endswith("::from_usize") for x in both):
                                    ok_b = True
    chk.judge(bool(ins) and ok_b, R, "QueryBuilder::add_atom:repeated-var->Eq", "a variable repeated within one atom adds Eq{new column, previous column} to the slow constraints",
              "a variable repeated within one atom does not produce a column-equality constraint (the atom `(R x x)` would match every row)", f.loc)
    # (c) occurrences
    ok_c = any(c.p.endswith("::push") and any(atom_path(a) and "occurrences" in atom_path(a) for a in f.origins(c.args[0])) for c in f.calls)
    chk.judge(ok_c, R, "QueryBuilder::add_atom:occurrences", "each variable's columns are recorded as an occurrence of the new atom",
              "add_atom no longer records variable occurrences (the planner would not join on the variable)", f.loc)
    # query_prim
    qp = prog.need_role("egglog_bridge::rule::RuleBuilder::query_prim", lambda g: g.name.startswith("egglog_bridge::rule::") and g.kind != "closure" and
                        any(any(c.p.endswith("RuleBuilder::call_external") for c in h.calls) and any(c.p.endswith("RuleBuilder::assert_eq") for c in h.calls) for h in prog.children(g)),
                        "the primitive-atom lowering of the bridge's RuleBuilder")
    ok_p = False
    for h in prog.children(qp):
        asserts = {c.bb for c in h.calls if c.p.endswith("RuleBuilder::assert_eq")}
        binds = {c.bb for c in h.calls if c.p.endswith("::insert") and any(atom_path(a) and "mapping" in atom_path(a) for a in h.origins(c.args[0]))}
        calls = [c for c in h.calls if c.p.endswith("RuleBuilder::call_external")]
        if not asserts or not binds or not calls:
            continue
        ce = calls[0]
        # after a successful call_external: no path to a normal return avoids both bind and assert (the `?` error exit is exempt)
        good = asserts | binds
        # blocks that set the return value to an error (`?` / Err(..)) end the obligation: the rule is not built at all
        err_blocks = set()
        for (bb, idx, dproj, kind, payload) in h.defs.get(0, []):
            if (kind == "call" and payload.p.endswith("from_residual")) or (kind == "a" and payload[0] == "agg" and payload[3] == "Err"):
                err_blocks.add(bb)
        bad = False
        seen = set()
        stack = [ce.target]
        while stack:
            x = stack.pop()
            if x in seen or x in good or x in err_blocks:
                continue
            seen.add(x)
            if h.term(x)[0] == "ret":
                bad = True
                break
            stack.extend(h.succ[x])
        # the bind is guarded by !grounded.contains
        bind_guarded = all(any(g.get("truth") is False and g["desc"][0] == "call" and g["desc"][1].p.endswith("::contains") for g in guards(h, b)) for b in binds)
        ok_p = (not bad) and bind_guarded
    chk.judge(ok_p, R, "RuleBuilder::query_prim:bind-or-assert", "a primitive atom binds a fresh output variable or asserts equality with the expected value",
              "a primitive atom in a rule body neither binds nor checks its result on some path (the guard would not filter), or binds an already-grounded variable", qp.loc)
    # every atom visited
    for (name, role, pidx, path, sinks, what) in (
        ("egglog::BackendRule::query", lambda g: g.name.startswith("egglog::") and any(c.p.endswith("RuleBuilder::query_table") for c in g.calls) and any(c.p.endswith("RuleBuilder::query_prim") for c in g.calls),
         2, ("atoms",), ("RuleBuilder::query_table", "RuleBuilder::query_prim"), "BackendRule::query"),
        ("egglog_bridge::rule::Query::build_cached_plan", lambda g: g.name.startswith("egglog_bridge::rule::") and any(c.p.endswith("RuleSet::build_cached_plan") for c in g.calls),
         1, ("atoms",), ("rule::add_atom",), "Query::build_cached_plan"),
    ):
        g = prog.need_role(name, role, what)
        loops = loop_over_path(g, pidx, path)
        ok = len(loops) == 1
        if ok:
            nx, some = loops[0]
            good = {c.bb for c in g.calls if c.p.endswith(sinks)}
            ok = bool(good) and every_iteration_passes_or_errs(g, nx, some, good)
        chk.judge(ok, R, f"{what}:every-atom", "a plain loop over the body's atoms hands every atom to the rule builder",
                  f"{what} does not hand every atom of the body to the rule builder (an atom can be skipped without an error)", g.loc)


def _is_err_exit(h, ret_bb, seen):
    """the return value at ret_bb comes from FromResidual::from_residual / an Err aggregate only"""
    at = h.origins([0, []])
    if not at:
        return False
    # find definitions of _0 reachable on this path: accept if every def of _0 inside `seen` is an error construction
    ok = False
    for (bb, idx, dproj, kind, payload) in h.defs.get(0, []):
        if bb not in seen:
            continue
        if kind == "call" and payload.p.endswith("from_residual"):
            ok = True
        elif kind == "a" and payload[0] == "agg" and payload[3] == "Err":
            ok = True
        else:
            return False
    return ok


def loop_over_path(f, param, path):
    """`for x in <param>.<path>` loops: (next-call, Some-arm successor); the iterator must be the field itself"""
    out = []
    for c in f.calls:
        if not (c.p.endswith("Iterator>::next") or c.p.endswith("Iterator::next")):
            continue
        at = f.origins(c.args[0])
        if not at or not all(a[0] == "param" and a[1] == param and tuple(a[2]) == tuple(path) for a in at):
            continue
        sw = c.target
        if sw is None or f.term(sw)[0] != "switch":
            continue
        some = [tb for v, tb in f.term(sw)[2] if v == "1"]
        if some:
            out.append((c, some[0]))
    return out


def every_iteration_passes_or_errs(f, nx, some, good):
    """from the Some arm, the loop header is not reachable again without passing a `good` block"""
    if some in good:
        return True
    r = {some} | f.reach_avoiding([some], good)
    return nx.bb not in r
