"""C08 — push/pop and clone give snapshot isolation.

Decides (ownership / aliasing, structural):
  R-SHARED-MUT    the set of interior-mutable handles (Arc/Rc/&/raw pointer to a non-Freeze pointee) reachable
                  from egglog::EGraph that Clone physically shares must equal the frozen table; handles listed
                  must-be-fresh are built fresh by the manual Clone impls
  R-POP-CARRYOVER pop carries over exactly {overall_run_report, parser.symbol_gen}
  R-LIVENESS      who may call ActionRegistry::lookup_table; lookup_action/table_sizes filter with is_live
"""
import json
import os

from ..util import fmt_atoms

EXPLANATION = (
    "Static clause of C08 decided on type facts + MIR: which mutable state is physically shared between an e-graph and its "
    "clone/snapshot (inventory over the ADT field graph from egglog::EGraph, with rustc's Freeze query deciding interior "
    "mutability and the Clone bodies deciding shared vs fresh), what pop deliberately carries over, and that a registry hit is "
    "checked for liveness before use. Not decided: output equality of P;push;Q;pop;R and P;R."
)

TABLE = os.path.join(os.path.dirname(os.path.dirname(os.path.abspath(__file__))), "tables", "c08_shared.json")


def inventory(prog):
    by_trait = {}
    for im in prog.impls:
        if im["trait"] and im["self_adt"]:
            by_trait.setdefault(im["trait"], set()).add(im["self_adt"])
    seen = set()
    work = [("egglog::EGraph", ("egglog::EGraph",))]
    found = {}
    dyn_nonfreeze = {}
    while work:
        a, path = work.pop()
        if a in seen:
            continue
        seen.add(a)
        adt = prog.adts.get(a)
        if not adt:
            continue
        for v in adt["variants"]:
            for fd in v["fields"]:
                for h in fd["handles"]:
                    if h["dyn"]:
                        continue
                    if not h["freeze"]:
                        key = f"{a}.{fd['name']}"
                        found.setdefault(key, {"owner": a, "field": fd["name"], "kind": h["kind"], "pointee": h["pointee"][:160],
                                               "via": " -> ".join(path[-4:])})
                for x in fd["adts"]:
                    work.append((x, path + (x,)))
                for t in fd["dyns"]:
                    for x in sorted(by_trait.get(t, ())):
                        ad = prog.adts.get(x)
                        if ad is not None and not ad.get("freeze", True) and not ad.get("generic", False):
                            dyn_nonfreeze.setdefault(t, set()).add(x)
                        work.append((x, path + (f"dyn {t}", x)))
    return found, dyn_nonfreeze, seen


def clone_behaviour(prog, owner, field):
    """'shared' | 'fresh' | 'derived-shared' | 'no-clone' | 'unknown'"""
    im = next((i for i in prog.impls if i["trait"] == "core::clone::Clone" and i["self_adt"] == owner), None)
    if im is None:
        return "no-clone"
    if im["derived"]:
        return "derived-shared"
    f = next((prog.fns.get(m) for m in im["methods"] if m.endswith("::clone")), None)
    if f is None:
        return "unknown"
    adt = prog.adts[owner]
    for i, j, s in f.assigns():
        rv = s[2]
        if rv[0] == "agg" and rv[2] == owner:
            v = next(x for x in adt["variants"] if x["name"] == rv[3])
            names = [fd["name"] for fd in v["fields"]]
            if field not in names:
                continue
            at = f.origins(rv[4][names.index(field)])
            # through the transparent Clone::clone: an origin rooted at self.<field> means the Arc was cloned (shared)
            if any(a[0] == "param" and a[1] == 1 and field in a[2] for a in at):
                return "shared"
            return "fresh"
    return "unknown"


def check_shared_mut(chk, prog):
    R = chk.rule("R-SHARED-MUT", "every interior-mutable handle reachable from egglog::EGraph (Arc/Rc/&/raw pointer whose pointee is not Freeze) is in the frozen table: "
                 "allowed (reason), must-be-fresh (its owner's Clone builds a new one), or a listed finding; Arc<dyn Trait> handles are judged through the non-Freeze implementors of the trait")
    with open(TABLE) as fh:
        table = json.load(fh)
    entries = table["entries"]
    found, dyn_nonfreeze, seen = inventory(prog)
    chk.floor(R, len(seen), 150, "ADTs reachable from egglog::EGraph through the field graph")
    chk.floor(R, len(found), 15, "interior-mutable handle fields reachable from egglog::EGraph")
    for key, h in sorted(found.items()):
        beh = clone_behaviour(prog, h["owner"], h["field"])
        e = entries.get(key)
        adt = prog.adts[h["owner"]]
        loc = f"{adt['file']}:{adt['line']}"
        if e is None:
            if beh == "fresh":
                chk.ok(R, key, "interior-mutable handle, built fresh by the owner's manual Clone", loc, pointee=h["pointee"], via=h["via"])
            else:
                chk.bad(R, key, f"unlisted interior-mutable state shared between an e-graph and its clone: {h['kind']}<{h['pointee']}> (Clone: {beh}); reached via {h['via']}", loc)
            continue
        st = e["status"]
        if st == "allowed":
            chk.ok(R, key, f"shared ({beh}); allowed: {e['reason']}", loc)
        elif st == "must-be-fresh":
            chk.judge(beh == "fresh", R, key, f"built fresh by Clone: {e['reason']}",
                      f"Clone shares {key} with the original (Clone: {beh}): {e['reason']}", loc)
        elif st == "finding":
            if beh in ("shared", "derived-shared", "no-clone"):
                chk.bad(R, key, f"shared mutable state between clone and original ({beh}): {e['reason']}", loc)
            else:
                chk.ok(R, key, "listed finding no longer present: handle is built fresh now", loc)
    for key in entries:
        if key not in found and entries[key]["status"] == "must-be-fresh":
            chk.missing(R, f"table entry {key} (must-be-fresh) no longer matches a field")
    allowed_dyn = table["dyn_traits"]["allowed_nonfreeze_impls"]
    for t, impls in sorted(dyn_nonfreeze.items()):
        for x in sorted(impls):
            k = f"dyn {t}:{x}"
            ad = prog.adts[x]
            if x in allowed_dyn.get(t, {}):
                chk.ok(R, k, f"non-Freeze implementor behind a shared trait object; allowed: {allowed_dyn[t][x]}", f"{ad['file']}:{ad['line']}")
            else:
                chk.bad(R, k, f"{x} contains interior mutability and is shared behind Arc<dyn {t}> between clone and original", f"{ad['file']}:{ad['line']}")
    chk.extra["inventory"] = {k: v["pointee"][:80] for k, v in sorted(found.items())}


def check_pop(chk, prog):
    R = chk.rule("R-POP-CARRYOVER", "EGraph::pop swaps exactly {overall_run_report, parser.symbol_gen} between self and the restored snapshot and then assigns the whole snapshot to *self")
    f = prog.need("egglog::EGraph::pop")
    swapped = set()
    mismatched = []
    for c in f.calls_to("core::mem::swap"):
        sides = []
        for a in c.args:
            own, snap = set(), set()
            for x in f.origins(a):
                if x[0] == "param" and x[1] == 1:
                    if x[2][:1] == ("pushed_egraph",):
                        if "pointer" in x[2]:
                            snap.add(".".join(x[2][x[2].index("pointer") + 1:]))
                    else:
                        own.add(".".join(x[2]))
            sides.append((own, snap))
        own = sides[0][0] | sides[1][0]
        swapped |= own
        # the other operand must be the same field of the snapshot
        if not all(o in (sides[0][1] | sides[1][1]) for o in own):
            mismatched.append(sorted(own))
    whole = any(s[1] == [1, ["*"]] for i, j, s in f.assigns())
    want = {"overall_run_report", "parser.symbol_gen"}
    chk.judge(swapped == want and whole and not mismatched, R, "egglog::EGraph::pop", f"pop preserves exactly {sorted(want)} and restores everything else",
              f"pop carries over {sorted(swapped)} (expected {sorted(want)}); whole-struct restore present: {whole}", f.loc)
    # push: the snapshot is a clone of self
    g = prog.need("egglog::EGraph::push")
    cl = [c for c in g.calls if c.p == "<egglog::EGraph as core::clone::Clone>::clone"]
    chk.judge(bool(cl), R, "egglog::EGraph::push", "push stores a full clone of the e-graph", "push no longer clones the e-graph", g.loc)


def check_liveness(chk, prog):
    R = chk.rule("R-LIVENESS", "ActionRegistry::lookup_table may be called only from exec_state::lookup_action (whose hit is filtered by TableAction::is_live) and the listed "
                 "proof-container-rebuild sites; ActionRegistry::table_sizes filters with is_live")
    allowed_roots = {
        "egglog::exec_state::lookup_action": "filters with is_live",
    }
    n = 0
    for g, c in prog.direct_callers("egglog_bridge::ActionRegistry::lookup_table"):
        n += 1
        root = g.root or g.name
        if root in allowed_roots:
            chk.ok(R, f"{root}:lookup_table", allowed_roots[root], c.loc)
        elif g.file.endswith("proofs/proof_container_rebuild.rs"):
            chk.ok(R, f"{root}:lookup_table", "listed: resolves the engine's own proof constructors, registered under the same snapshot as the primitive using them", c.loc)
        else:
            chk.bad(R, f"{root}:lookup_table", f"{root} trusts a name-indexed registry hit without a liveness check (a table dropped by pop would be reachable)", c.loc)
    chk.floor(R, n, 2, "callers of ActionRegistry::lookup_table")
    la = prog.need("egglog::exec_state::lookup_action")
    live = False
    for g in prog.region(la):
        if g.calls_to("egglog_bridge::TableAction::is_live"):
            live = True
    # the filtered value is what is returned
    ret = la.origins([0, []])
    via_filter = any(a[0] == "call" and ("filter" in a[1] or "cloned" in a[1] or "Option" in a[1]) for a in ret)
    filt = [c for c in la.calls if c.p.endswith("Option::filter")]
    chk.judge(live and bool(filt), R, "egglog::exec_state::lookup_action:is_live", "registry hit is filtered through TableAction::is_live before it is returned",
              "lookup_action no longer filters the registry hit with is_live", la.loc)
    ts = prog.need("egglog_bridge::ActionRegistry::table_sizes")
    live2 = any(g.calls_to("egglog_bridge::TableAction::is_live") for g in prog.region(ts))
    chk.judge(live2, R, "egglog_bridge::ActionRegistry::table_sizes:is_live", "table_sizes skips handles that outlived their table",
              "table_sizes no longer filters with is_live", ts.loc)


# fields a manual Clone impl may build from something else than the same field of `self`, with the reason
CLONE_FRESH_OK = {
    ("egglog_core_relations::action::ExecutionState", "predicted"): "per-run prediction cache of an execution handle, not e-graph state",
    ("egglog_core_relations::action::ExecutionState", "changed"): "per-handle change flag of an execution handle, not e-graph state",
    ("egglog_core_relations::free_join::Counters", "0"): "atomics are not Clone: rebuilt element by element from self.0 (loads), asserted fresh by R-SHARED-MUT",
    ("egglog_union_find::concurrent::buffer::Buffer", "data"): "atomics are not Clone: a new vector is filled element by element with loads of self.data under the read lock",
    ("egglog_core_relations::table::SortedWritesTable", "rebuild_index"): "lazily refreshed cache (Index starts at version 0 and rebuilds itself on first use)",
    ("egglog_core_relations::table::SortedWritesTable", "subset_tracker"): "cache: an empty tracker hands out the whole table on first use (conservative)",
    ("egglog_core_relations::uf::DisplacedTable", "buffered_writes"): "pending writes belong to outstanding buffers of the original; a snapshot starts with none (R-SHARED-MUT asserts fresh)",
}
CLONE_LOOK_THROUGH = ("::deep_copy", "Pooled::cloned", "::dyn_clone", "::deep_clone_map", "Mutex::new", "RwLock::new", "ReadOptimizedLock::new", "Iterator::collect",
                      "Iterator::map", "::iter", "Option::map", "Iterator::cloned", "MutexGuard as core::ops::deref::Deref>::deref", "Mutex::lock", "Result::unwrap")


def _clone_sources(f, operand, depth=0):
    out = set()
    for a in f.origins(operand):
        if a[0] == "call" and depth < 5:
            c = f.call_at(a[2])
            if c is not None and c.args and c.p.endswith(CLONE_LOOK_THROUGH):
                out |= _clone_sources(f, c.args[0], depth + 1)
                continue
        out.add(a)
    return out


def check_clone_faithful(chk, prog):
    R = chk.rule("R-CLONE-FAITHFUL", "every hand-written `impl Clone` of a workspace struct builds each field of the copy from the same field of `self` (through clone / deep_copy / "
                 "dyn_clone / a fresh lock or Arc around the cloned value); a field built from anything else — an empty container, a default, a constant, another field, or one of these "
                 "on some path only — must be in the frozen table of caches and per-handle state (one reason per entry). A snapshot whose table data, offsets or hash index is rebuilt "
                 "from scratch or conditionally dropped is not a snapshot")
    n = 0
    used = set()
    for im in prog.impls:
        if not (im["trait"] and im["trait"].endswith("core::clone::Clone")) or im.get("derived"):
            continue
        for m in im["methods"]:
            if not m.endswith("::clone"):
                continue
            f = prog.fns.get(m)
            if f is None or f.crate.endswith("[bin]"):
                continue
            aggs = [(i, j, s) for i, j, s in f.assigns() if s[2][0] == "agg" and s[2][1] == "adt" and s[1] == [0, []]]
            if len(aggs) != 1:
                continue  # enums / delegating impls
            i, j, s = aggs[0]
            adt = prog.adts.get(s[2][2])
            if not adt or len(adt["variants"]) != 1:
                continue
            fields = adt["variants"][0]["fields"]
            for k, o in enumerate(s[2][4]):
                fname = fields[k]["name"]
                if "PhantomData" in fields[k]["ty"]:
                    continue
                n += 1
                at = _clone_sources(f, o)
                bad = [a for a in at if not (a[0] == "param" and a[1] == 1 and a[2][:1] == (fname,))]
                key = (s[2][2], fname)
                if bad and key in CLONE_FRESH_OK:
                    used.add(key)
                    chk.ok(R, f"{s[2][2]}.{fname}", f"listed: {CLONE_FRESH_OK[key]}", f.loc)
                    continue
                chk.judge(not bad, R, f"{s[2][2]}.{fname}", "copied from the same field of self",
                          f"Clone for {s[2][2].rsplit('::', 1)[-1]} builds `{fname}` from {fmt_atoms(set(bad))} on some path instead of copying self.{fname}: the clone / pushed snapshot "
                          "does not hold this part of the state", f.loc)
    chk.floor(R, n, 40, "fields of hand-written Clone impls")
    for key in CLONE_FRESH_OK:
        if key not in used:
            chk.ok(R, f"{key[0]}.{key[1]}:table-entry-unused", "listed field is now copied faithfully (entry no longer needed)")


def check_push_chain(chk, prog):
    R = chk.rule("R-PUSH-CHAIN", "EGraph::push: the snapshot stored in self.pushed_egraph is a Clone::clone of self taken in this call, and the previously pushed snapshot (taken out of "
                 "self.pushed_egraph first) is stored into that snapshot's pushed_egraph, so the stack of snapshots stays a chain: pop after a nested push restores the outer snapshot")
    f = prog.need("egglog::EGraph::push")
    clones = [c for c in f.calls if c.p.endswith("EGraph as core::clone::Clone>::clone") or (c.p.endswith("Clone>::clone") and "EGraph" in c.p)]
    takes = [c for c in f.calls if c.p.endswith("Option::take") and any(a[0] == "param" and a[2][-1:] == ("pushed_egraph",) for a in f.origins(c.args[0]))]
    ok = bool(clones) and bool(takes)
    why = "no clone of self / no take of the previous snapshot"
    if ok:
        cl = clones[0]
        # prev.pushed_egraph = prev_prev
        link = False
        store_self = False
        OPQ = ("Clone>::clone", "Clone::clone")

        def deep(o, d=0):
            out = set()
            for a in f.origins(o, opaque=OPQ):
                if a[0] == "agg" and d < 3:
                    st = f.stmt(a[4], a[5])
                    for x in st[2][4]:
                        out |= deep(x, d + 1)
                else:
                    out.add(a)
            return out
        for i, j, s2 in f.assigns():
            pj = [e for e in s2[1][1] if not isinstance(e, str)]
            if pj and pj[-1][0] == "f" and pj[-1][2] == "pushed_egraph" and s2[2][0] == "use":
                base = f.origins([s2[1][0], []], opaque=OPQ)
                val = deep(s2[2][1])
                if any(a[0] == "call" and a[2] == cl.bb for a in base) and any(a[0] == "param" and a[1] == 1 and a[2][-1:] == ("pushed_egraph",) for a in val):
                    link = True
                if s2[1][0] == 1 and any(a[0] == "call" and a[2] == cl.bb for a in val):
                    store_self = True
        ok = link and store_self and f.dominates(takes[0].bb, cl.bb)
        why = f"link previous snapshot: {link}; store clone: {store_self}; previous snapshot taken before cloning: {f.dominates(takes[0].bb, cl.bb)}"
    chk.judge(ok, R, "egglog::EGraph::push", "snapshot = clone of self, chained to the previously pushed snapshot", why, f.loc)


def check_registry_overwrite(chk, prog):
    """the name -> table registry is shared between an e-graph and its snapshots (finding F5) and entries of popped scopes stay behind
    as dead handles (that is what the is_live filter is for). A later declaration under the same name must therefore REPLACE the entry."""
    R = chk.rule("R-REGISTRY-OVERWRITE", "ActionRegistry::register_table stores the new handle under the name unconditionally (a plain map insert on every path): entries left behind by a "
                 "popped scope are dead handles, and a keep-the-first-entry insertion (entry().or_insert) would make the re-declared table unreachable by name forever")
    f = prog.need("egglog_bridge::ActionRegistry::register_table")
    ins = [c for c in f.calls if c.p.endswith("HashMap::insert") and any(a[0] == "param" and a[1] == 1 and a[2][-1:] == ("table_actions",) for a in f.origins(c.args[0]))]
    ok = bool(ins)
    if ok:
        c = ins[0]
        ok = (c.bb == 0 or not any(f.term(b)[0] == "ret" for b in f.reach_avoiding_from_entry({c.bb})))
        ok = ok and any(a[0] == "param" and a[1] == 2 for a in f.origins(c.args[1])) and any(a[0] == "param" and a[1] == 3 for a in f.origins(c.args[2]))
    other = [c for c in f.calls if c.p.rsplit("::", 1)[-1] in ("entry", "or_insert", "or_insert_with", "try_insert", "contains_key")]
    chk.judge(ok and not other, R, "ActionRegistry::register_table", "the newest declaration of a name replaces the registry entry",
              "register_table keeps an existing entry for the name (or inserts conditionally): after `push; declare g; pop; declare g` the registry still points at the popped "
              "scope's dead table and every name-indexed access to g reports a missing table", f.loc)


def run(chk, prog, tier):
    chk.explanation = EXPLANATION
    chk.assumptions = [
        "rustc's Freeze query decides 'contains no UnsafeCell'; generic ADTs are judged at their identity instantiation",
        "Arc<dyn Fn*> handles (closures) are treated as stateless unless their captured ADTs are reached elsewhere in the field graph",
        "clones of one e-graph are not used concurrently from several threads (NotificationList entry)",
    ]
    check_shared_mut(chk, prog)
    check_pop(chk, prog)
    check_liveness(chk, prog)
    check_clone_faithful(chk, prog)
    check_push_chain(chk, prog)
    check_registry_overwrite(chk, prog)
