"""C08 — push/pop and clone give snapshot isolation.

Decides (ownership / aliasing, structural):
  R-SHARED-MUT    the set of interior-mutable handles (Arc/Rc/&/raw pointer to a non-Freeze pointee) reachable
                  from egglog::EGraph that Clone physically shares must equal the frozen table; handles listed
                  must-be-fresh are built fresh by the manual Clone impls
  R-POP-CARRYOVER pop carries over exactly {overall_run_report, parser.symbol_gen}
  R-LIVENESS      who may call ActionRegistry::lookup_table; lookup_action/table_sizes filter with is_live
"""
import json
import os

from ..util import fmt_atoms

EXPLANATION = (
    "Static clause of C08 decided on type facts + MIR: which mutable state is physically shared between an e-graph and its "
    "clone/snapshot (inventory over the ADT field graph from egglog::EGraph, with rustc's Freeze query deciding interior "
    "mutability and the Clone bodies deciding shared vs fresh), what pop deliberately carries over, and that a registry hit is "
    "checked for liveness before use. Not decided: output equality of P;push;Q;pop;R and P;R."
)

TABLE = os.path.join(os.path.dirname(os.path.dirname(os.path.abspath(__file__))), "tables", "c08_shared.json")


def inventory(prog):
    by_trait = {}
    for im in prog.impls:
        if im["trait"] and im["self_adt"]:
            by_trait.setdefault(im["trait"], set()).add(im["self_adt"])
    seen = set()
    work = [("egglog::EGraph", ("egglog::EGraph",))]
    found = {}
    dyn_nonfreeze = {}
    while work:
        a, path = work.pop()
        if a in seen:
            continue
        seen.add(a)
        adt = prog.adts.get(a)
        if not adt:
            continue
        for v in adt["variants"]:
            for fd in v["fields"]:
                for h in fd["handles"]:
                    if h["dyn"]:
                        continue
                    if not h["freeze"]:
                        key = f"{a}.{fd['name']}"
                        found.setdefault(key, {"owner": a, "field": fd["name"], "kind": h["kind"], "pointee": h["pointee"][:160],
                                               "via": " -> ".join(path[-4:])})
                for x in fd["adts"]:
                    work.append((x, path + (x,)))
                for t in fd["dyns"]:
                    for x in sorted(by_trait.get(t, ())):
                        ad = prog.adts.get(x)
                        if ad is not None and not ad.get("freeze", True) and not ad.get("generic", False):
                            dyn_nonfreeze.setdefault(t, set()).add(x)
                        work.append((x, path + (f"dyn {t}", x)))
    return found, dyn_nonfreeze, seen


def clone_behaviour(prog, owner, field):
    """'shared' | 'fresh' | 'derived-shared' | 'no-clone' | 'unknown'"""
    im = next((i for i in prog.impls if i["trait"] == "core::clone::Clone" and i["self_adt"] == owner), None)
    if im is None:
        return "no-clone"
    if im["derived"]:
        return "derived-shared"
    f = next((prog.fns.get(m) for m in im["methods"] if m.endswith("::clone")), None)
    if f is None:
        return "unknown"
    adt = prog.adts[owner]
    for i, j, s in f.assigns():
        rv = s[2]
        if rv[0] == "agg" and rv[2] == owner:
            v = next(x for x in adt["variants"] if x["name"] == rv[3])
            names = [fd["name"] for fd in v["fields"]]
            if field not in names:
                continue
            at = f.origins(rv[4][names.index(field)])
            # through the transparent Clone::clone: an origin rooted at self.<field> means the Arc was cloned (shared)
            if any(a[0] == "param" and a[1] == 1 and field in a[2] for a in at):
                return "shared"
            return "fresh"
    return "unknown"


def check_shared_mut(chk, prog):
    R = chk.rule("R-SHARED-MUT", "every interior-mutable handle reachable from egglog::EGraph (Arc/Rc/&/raw pointer whose pointee is not Freeze) is in the frozen table: "
                 "allowed (reason), must-be-fresh (its owner's Clone builds a new one), or a listed finding; Arc<dyn Trait> handles are judged through the non-Freeze implementors of the trait")
    with open(TABLE) as fh:
        table = json.load(fh)
    entries = table["entries"]
    found, dyn_nonfreeze, seen = inventory(prog)
    chk.floor(R, len(seen), 150, "ADTs reachable from egglog::EGraph through the field graph")
    chk.floor(R, len(found), 15, "interior-mutable handle fields reachable from egglog::EGraph")
    for key, h in sorted(found.items()):
        beh = clone_behaviour(prog, h["owner"], h["field"])
        e = entries.get(key)
        adt = prog.adts[h["owner"]]
        loc = f"{adt['file']}:{adt['line']}"
        if e is None:
            if beh == "fresh":
                chk.ok(R, key, "interior-mutable handle, built fresh by the owner's manual Clone", loc, pointee=h["pointee"], via=h["via"])
            else:
                chk.bad(R, key, f"unlisted interior-mutable state shared between an e-graph and its clone: {h['kind']}<{h['pointee']}> (Clone: {beh}); reached via {h['via']}", loc)
            continue
        st = e["status"]
        if st == "allowed":
            chk.ok(R, key, f"shared ({beh}); allowed: {e['reason']}", loc)
        elif st == "must-be-fresh":
            chk.judge(beh == "fresh", R, key, f"built fresh by Clone: {e['reason']}",
                      f"Clone shares {key} with the original (Clone: {beh}): {e['reason']}", loc)
        elif st == "finding":
            if beh in ("shared", "derived-shared", "no-clone"):
                chk.bad(R, key, f"shared mutable state between clone and original ({beh}): {e['reason']}", loc)
            else:
                chk.ok(R, key, "listed finding no longer present: handle is built fresh now", loc)
    for key in entries:
        if key not in found and entries[key]["status"] == "must-be-fresh":
            chk.missing(R, f"table entry {key} (must-be-fresh) no longer matches a field")
    allowed_dyn = table["dyn_traits"]["allowed_nonfreeze_impls"]
    for t, impls in sorted(dyn_nonfreeze.items()):
        for x in sorted(impls):
            k = f"dyn {t}:{x}"
            ad = prog.adts[x]
            if x in allowed_dyn.get(t, {}):
                chk.ok(R, k, f"non-Freeze implementor behind a shared trait object; allowed: {allowed_dyn[t][x]}", f"{ad['file']}:{ad['line']}")
            else:
                chk.bad(R, k, f"{x} contains interior mutability and is shared behind Arc<dyn {t}> between clone and original", f"{ad['file']}:{ad['line']}")
    chk.extra["inventory"] = {k: v["pointee"][:80] for k, v in sorted(found.items())}


def check_pop(chk, prog):
    R = chk.rule("R-POP-CARRYOVER", "EGraph::pop swaps exactly {overall_run_report, parser.symbol_gen} between self and the restored snapshot and then assigns the whole snapshot to *self")
    f = prog.need("egglog::EGraph::pop")
    swapped = set()
    mismatched = []
    for c in f.calls_to("core::mem::swap"):
        sides = []
        for a in c.args:
            own, snap = set(), set()
            for x in f.origins(a):
                if x[0] == "param" and x[1] == 1:
                    if x[2][:1] == ("pushed_egraph",):
                        if "pointer" in x[2]:
                            snap.add(".".join(x[2][x[2].index("pointer") + 1:]))
                    else:
                        own.add(".".join(x[2]))
            sides.append((own, snap))
        own = sides[0][0] | sides[1][0]
        swapped |= own
        # the other operand must be the same field of the snapshot
        if not all(o in (sides[0][1] | sides[1][1]) for o in own):
            mismatched.append(sorted(own))
    whole = any(s[1] == [1, ["*"]] for i, j, s in f.assigns())
    want = {"overall_run_report", "parser.symbol_gen"}
    chk.judge(swapped == want and whole and not mismatched, R, "egglog::EGraph::pop", f"pop preserves exactly {sorted(want)} and restores everything else",
              f"pop carries over {sorted(swapped)} (expected {sorted(want)}); whole-struct restore present: {whole}", f.loc)
    # push: the snapshot is a clone of self
    g = prog.need("egglog::EGraph::push")
    cl = [c for c in g.calls if c.p == "<egglog::EGraph as core::clone::Clone>::clone"]
    chk.judge(bool(cl), R, "egglog::EGraph::push", "push stores a full clone of the e-graph", "push no longer clones the e-graph", g.loc)


def check_liveness(chk, prog):
    R = chk.rule("R-LIVENESS", "ActionRegistry::lookup_table may be called only from exec_state::lookup_action (whose hit is filtered by TableAction::is_live) and the listed "
                 "proof-container-rebuild sites; ActionRegistry::table_sizes filters with is_live")
    allowed_roots = {
        "egglog::exec_state::lookup_action": "filters with is_live",
    }
    n = 0
    for g, c in prog.direct_callers("egglog_bridge::ActionRegistry::lookup_table"):
        n += 1
        root = g.root or g.name
        if root in allowed_roots:
            chk.ok(R, f"{root}:lookup_table", allowed_roots[root], c.loc)
        elif g.file.endswith("proofs/proof_container_rebuild.rs"):
            chk.ok(R, f"{root}:lookup_table", "listed: resolves the engine's own proof constructors, registered under the same snapshot as the primitive using them", c.loc)
        else:
            chk.bad(R, f"{root}:lookup_table", f"{root} trusts a name-indexed registry hit without a liveness check (a table dropped by pop would be reachable)", c.loc)
    chk.floor(R, n, 2, "callers of ActionRegistry::lookup_table")
    la = prog.need("egglog::exec_state::lookup_action")
    live = False
    for g in prog.region(la):
        if g.calls_to("egglog_bridge::TableAction::is_live"):
            live = True
    # the filtered value is what is returned
    ret = la.origins([0, []])
    via_filter = any(a[0] == "call" and ("filter" in a[1] or "cloned" in a[1] or "Option" in a[1]) for a in ret)
    filt = [c for c in la.calls if c.p.endswith("Option::filter")]
    chk.judge(live and bool(filt), R, "egglog::exec_state::lookup_action:is_live", "registry hit is filtered through TableAction::is_live before it is returned",
              "lookup_action no longer filters the registry hit with is_live", la.loc)
    ts = prog.need("egglog_bridge::ActionRegistry::table_sizes")
    live2 = any(g.calls_to("egglog_bridge::TableAction::is_live") for g in prog.region(ts))
    chk.judge(live2, R, "egglog_bridge::ActionRegistry::table_sizes:is_live", "table_sizes skips handles that outlived their table",
              "table_sizes no longer filters with is_live", ts.loc)


def run(chk, prog, tier):
    chk.explanation = EXPLANATION
    chk.assumptions = [
        "rustc's Freeze query decides 'contains no UnsafeCell'; generic ADTs are judged at their identity instantiation",
        "Arc<dyn Fn*> handles (closures) are treated as stateless unless their captured ADTs are reached elsewhere in the field graph",
        "clones of one e-graph are not used concurrently from several threads (NotificationList entry)",
    ]
    check_shared_mut(chk, prog)
    check_pop(chk, prog)
    check_liveness(chk, prog)
