"""C07 — extraction returns a member of the class at minimum cost.

Decides (structural):
  R-SUBSUMED-GUARD     every table-scan closure of the extractor that mutates extractor state or collects
                       root variants does so only under `row.subsumed == false`
  R-EXTRACTABLE-GUARD  functions enter the reverse index only if !unextractable, !internal_hidden and
                       (subtype == Constructor || term_constructor.is_some())
  R-RANK-GUARD         a parent edge is recorded only if the row's cost equals the class's best cost and the
                       target's topological rank is strictly greater than the hyperedge's
  R-COST-NO-WRAP       integer Cost::combine cannot wrap or panic (no plain/wrapping add)
"""
from ..util import guards, may_guards, reachable_without_edges, fmt_atoms

EXPLANATION = (
    "Static clause of C07 decided on MIR: the subsumed/unextractable/hidden row filters the statement names are applied at "
    "every place rows enter the extractor, the rank (cycle) guard and best-cost test control every recorded parent edge, "
    "integer cost combination saturates. Not decided: optimality and class membership of the extracted term (needs the "
    "least-fixpoint oracle and re-evaluation)."
)

EXTRACTOR = "egglog::extract::Extractor"


def upvar_types(f):
    """index -> type of the captured variable (from the first load of (*_1).k)"""
    out = {}
    for i, j, s in f.assigns():
        rv = s[2]
        if rv[0] == "use" and rv[1][0] in ("c", "m") and rv[1][1][0] == 1:
            pj = [e for e in rv[1][1][1] if e != "*"]
            if len(pj) == 1 and pj[0][0] == "f":
                out.setdefault(pj[0][1], f.locals[s[1][0]])
    return out


def effects(prog, f):
    """(bb, description) of mutations of extractor state / root-variant collection inside closure f"""
    fields = set()
    adt = prog.adts.get(EXTRACTOR)
    if adt:
        fields = {fd["name"] for fd in adt["variants"][0]["fields"]}
    ut = upvar_types(f)
    out = []
    for i, j, s in f.assigns():
        rv = s[2]
        # &mut self.<field> or assignment into self.<field>
        targets = []
        if rv[0] == "ref" and rv[1] == "mut":
            targets.append(rv[2])
        targets.append(s[1])
        for pl in targets:
            names = [e[2] for e in pl[1] if not isinstance(e, str) and e[0] == "f"]
            hit = [n for n in names if n in fields]
            if not hit:
                continue
            # rooted (through copies) at an upvar of type &mut Extractor
            at = f.origins([pl[0], []])
            for a in at:
                if a[0] == "param" and a[1] == 1 and a[2] and a[2][0].isdigit():
                    t = ut.get(int(a[2][0]), "")
                    if EXTRACTOR in t and (t.startswith("&mut") or pl is s[1]):
                        if pl is s[1] or rv[1] == "mut":
                            out.append((i, f"writes Extractor.{hit[0]}", s[3]))
    for c in f.calls:
        if c.p in ("alloc::vec::Vec::push", "alloc::vec::Vec::extend", "alloc::vec::Vec::insert") and c.args:
            at = f.origins(c.args[0])
            for a in at:
                if a[0] == "param" and a[1] == 1 and a[2] and a[2][0].isdigit():
                    t = ut.get(int(a[2][0]), "")
                    if t.startswith("&mut alloc::vec::Vec<("):
                        out.append((c.bb, f"pushes onto captured {f.upvars.get((a[2][0],), 'vector')}", c.line))
    return out


def subsumed_false_guard(f, bb):
    for g in guards(f, bb):
        if g.get("truth") is False and g["desc"][0] == "val":
            at = f.origins(g["desc"][1])
            if any(a[0] == "param" and a[1] == 2 and a[2] == ("subsumed",) for a in at):
                return True
    return False


def check_subsumed(chk, prog):
    R = chk.rule("R-SUBSUMED-GUARD", "in closures of Extractor methods that receive an egglog_bridge::ScanEntry, every mutation of Extractor state "
                 "(costs / topo_rnk / parent_edge / topo_rnk_cnt) and every push of a root variant is control dependent on row.subsumed == false")
    n = 0
    for f in prog.lib_fns(["egglog"]):
        if f.kind != "closure" or not (f.root or "").startswith(EXTRACTOR + "::"):
            continue
        if not any("ScanEntry" in t for t in f.locals[1:f.argc + 1]):
            continue
        eff = effects(prog, f)
        if not eff:
            continue
        n += 1
        bad = [(bb, what, line) for (bb, what, line) in eff if not subsumed_false_guard(f, bb)]
        role = sorted({w for _, w, _ in eff})
        key = f"{f.root}:scan-closure:{'+'.join(sorted({w.split('.')[-1].split(' ')[-1] for w in role}))}"
        chk.judge(not bad, R, key, f"{len(eff)} state mutation(s) all under !row.subsumed ({role})",
                  "subsumed rows can reach: " + "; ".join(f"{w} at line {l}" for _, w, l in bad), f.loc)
    chk.floor(R, n, 3, "extractor scan closures with effects (relax, save-best-parent-edge, find-root-variants)")


def check_extractable(chk, prog):
    R = chk.rule("R-EXTRACTABLE-GUARD", "in compute_costs_from_rootsorts, insertions into the reverse index are control dependent on "
                 "decl.unextractable == false, decl.internal_hidden == false and on the tests subtype == Constructor / term_constructor.is_some()")
    f = prog.need(EXTRACTOR + "::compute_costs_from_rootsorts")
    rev = f.var("rev_index")
    if not rev:
        chk.missing(R, "local rev_index")
        return
    sites = []
    for c in f.calls:
        if c.p.endswith(("HashMap::insert", "Vec::push")) and c.args:
            at = f.origins(c.args[0])
            if any((a[0] in ("local",) and a[1] in rev) or (a[0] == "call" and False) for a in at) or _rooted_at(f, c.args[0], rev):
                sites.append(c)
    if not chk.floor(R, len(sites), 2, "insertions into rev_index"):
        return
    for c in sites:
        gs = guards(f, c.bb)
        have = {"unextractable": False, "internal_hidden": False}
        for g in gs:
            if g.get("truth") is False and g["desc"][0] == "val":
                at = f.origins(g["desc"][1])
                for a in at:
                    p = a[-1] if a[0] in ("param", "call", "local") else ()
                    if p and p[-1] in ("unextractable", "internal_hidden"):
                        have[p[-1]] = True
        # the disjunction (subtype == Constructor || term_constructor.is_some()): every path to the
        # insertion takes the true edge of one of the two tests
        dis_edges = set()
        for g in may_guards(f, c.bb):
            if g.get("rel") == "Eq":
                for side in (g["a"], g["b"]):
                    if any(a[-1] and a[-1][-1] == "subtype" for a in f.origins(side) if a[0] in ("param", "call", "local")):
                        dis_edges.add(g["at"])
            if g.get("truth") is True and g["desc"][0] == "call" and g["desc"][1].p.endswith("Option::is_some"):
                if any(a[-1] and a[-1][-1] == "term_constructor" for a in f.origins(g["desc"][1].args[0]) if a[0] in ("param", "call", "local")):
                    dis_edges.add(g["at"])
        dis_ok = bool(dis_edges) and not reachable_without_edges(f, c.bb, dis_edges)
        ok = have["unextractable"] and have["internal_hidden"] and dis_ok
        missing = [k for k, v in have.items() if not v] + ([] if dis_ok else ["subtype == Constructor || term_constructor.is_some()"])
        chk.judge(ok, R, f"{f.name}:rev_index-insert:{c.p.rsplit('::', 1)[1]}",
                  "insertion guarded by !unextractable, !internal_hidden and the constructor/view test",
                  f"insertion into the reverse index is not guarded by: {missing}", c.loc)
    # both halves of the disjunction must still be tested somewhere on the way
    tests = {"subtype": False, "term_constructor": False}
    for c in sites:
        for g in may_guards(f, c.bb):
            if g.get("rel") in ("Eq", "Ne"):
                for side in (g["a"], g["b"]):
                    if any(a[-1] and a[-1][-1] == "subtype" for a in f.origins(side) if a[0] in ("param", "call", "local")):
                        tests["subtype"] = True
            if "truth" in g and g["desc"][0] == "call" and g["desc"][1].p.endswith("Option::is_some"):
                if any(a[-1] and a[-1][-1] == "term_constructor" for a in f.origins(g["desc"][1].args[0]) if a[0] in ("param", "call", "local")):
                    tests["term_constructor"] = True
    chk.judge(all(tests.values()), R, f"{f.name}:constructor-or-view-test",
              "both `subtype == Constructor` and `term_constructor.is_some()` are tested before insertion",
              f"tests missing on the way to the reverse-index insertion: {[k for k, v in tests.items() if not v]}", f.loc)


def _rooted_at(f, operand, locals_):
    seen = set()
    work = [operand]
    for _ in range(12):
        nxt = []
        for o in work:
            if o[0] not in ("c", "m"):
                continue
            l = o[1][0]
            if l in locals_:
                return True
            if l in seen:
                continue
            seen.add(l)
            for (bb, idx, dproj, kind, payload) in f.defs.get(l, []):
                if kind == "a":
                    rv = payload
                    if rv[0] in ("ref", "rawptr"):
                        nxt.append(["c", rv[2]])
                    elif rv[0] == "use":
                        nxt.append(rv[1])
                    elif rv[0] == "cast":
                        nxt.append(rv[2])
                else:
                    if payload.args:
                        nxt.append(payload.args[0])
        work = nxt
        if not work:
            break
    return False


def check_rank(chk, prog):
    R = chk.rule("R-RANK-GUARD", "the insertion into Extractor.parent_edge is control dependent on (a) equality of the class's best cost with "
                 "compute_cost_hyperedge(row) and (b) target rank > compute_topo_rnk_hyperedge(row) (strict: cycle guard)")
    n = 0
    for f in prog.lib_fns(["egglog"]):
        if f.kind != "closure" or not (f.root or "").startswith(EXTRACTOR + "::"):
            continue
        eff = [e for e in effects(prog, f) if e[1] == "writes Extractor.parent_edge"]
        if not eff:
            continue
        # the actual insertion: VacantEntry::insert / HashMap::insert after the &mut parent_edge borrow
        ins = [c for c in f.calls if c.p.endswith(("VacantEntry::insert", "HashMap::insert", "OccupiedEntry::insert"))]
        for c in ins:
            n += 1
            gs = guards(f, c.bb)
            rank_ok = cost_ok = False
            for g in gs:
                if "rel" not in g:
                    continue
                ca = {a[1] for a in f.origins(g["a"]) if a[0] == "call"}
                cb = {a[1] for a in f.origins(g["b"]) if a[0] == "call"}
                hyper = EXTRACTOR + "::compute_topo_rnk_hyperedge"
                if (g["rel"] == "Gt" and hyper in cb and hyper not in ca) or (g["rel"] == "Lt" and hyper in ca and hyper not in cb):
                    rank_ok = True
                cost = EXTRACTOR + "::compute_cost_hyperedge"
                if g["rel"] == "Eq" and ((cost in ca) != (cost in cb)):
                    cost_ok = True
            chk.judge(rank_ok and cost_ok, R, f"{f.root}:parent-edge-insert",
                      "parent edge recorded only under best-cost equality and strict rank decrease",
                      f"parent edge insertion not guarded by: {[n_ for n_, v in (('strict rank test', rank_ok), ('best-cost equality', cost_ok)) if not v]}", c.loc)
    chk.floor(R, n, 1, "parent_edge insertion sites")


def check_cost(chk, prog):
    R = chk.rule("R-COST-NO-WRAP", "integer implementations of Cost::combine contain no Add/AddWithOverflow/AddUnchecked and no wrapping/overflowing/unchecked add call")
    ints = ("u8", "u16", "u32", "u64", "u128", "usize", "i8", "i16", "i32", "i64", "i128", "isize")
    n = 0
    for t in ints:
        for f in prog.fn_multi.get(f"<{t} as egglog::extract::Cost>::combine", []):
            n += 1
            bad = []
            for i, j, s in f.assigns():
                if s[2][0] == "bin" and s[2][1] in ("Add", "AddWithOverflow", "AddUnchecked"):
                    bad.append(f"{s[2][1]} at line {s[3]}")
            for c in f.calls:
                if c.p.rsplit("::", 1)[-1] in ("wrapping_add", "overflowing_add", "unchecked_add"):
                    bad.append(c.p)
            sat = [c.p for c in f.calls if "saturating" in c.p or "checked_add" in c.p]
            chk.judge(not bad and bool(sat), R, f"<{t} as Cost>::combine", f"saturating combine ({sat})",
                      f"combine can wrap or panic: {bad or 'no saturating/checked add found'}", f.loc)
    chk.floor(R, n, 12, "integer Cost::combine implementations")


def run(chk, prog, tier):
    chk.explanation = EXPLANATION
    chk.assumptions = ["rustc nightly MIR construction", "deleted rows are invisible to scans (decided under C16 R-RAW-ROWS)"]
    check_subsumed(chk, prog)
    check_extractable(chk, prog)
    check_rank(chk, prog)
    check_cost(chk, prog)
    # the extractor reads tables through the batched row scans of the bridge: the last partial batch must not be lost
    from . import scan_common
    scan_common.check_scan_batches(chk, prog, only=lambda f: f.crate in ("egglog_bridge", "egglog") or "for_each_matching_col" in f.name, floor=4)
