"""C07 — extraction returns a member of the class at minimum cost.

Decides (structural):
  R-SUBSUMED-GUARD     every table-scan closure of the extractor that mutates extractor state or collects
                       root variants does so only under `row.subsumed == false`
  R-EXTRACTABLE-GUARD  functions enter the reverse index only if !unextractable, !internal_hidden and
                       (subtype == Constructor || term_constructor.is_some())
  R-RANK-GUARD         a parent edge is recorded only if the row's cost equals the class's best cost and the
                       target's topological rank is strictly greater than the hyperedge's
  R-COST-NO-WRAP       integer Cost::combine cannot wrap or panic (no plain/wrapping add)
"""
from ..util import guards, may_guards, reachable_without_edges, fmt_atoms

EXPLANATION = (
    "Static clause of C07 decided on MIR: the subsumed/unextractable/hidden row filters the statement names are applied at "
    "every place rows enter the extractor, the rank (cycle) guard and best-cost test control every recorded parent edge, "
    "integer cost combination saturates. Not decided: optimality and class membership of the extracted term (needs the "
    "least-fixpoint oracle and re-evaluation)."
)

EXTRACTOR = "egglog::extract::Extractor"


def upvar_types(f):
    """index -> type of the captured variable (from the first load of (*_1).k)"""
    out = {}
    for i, j, s in f.assigns():
        rv = s[2]
        if rv[0] == "use" and rv[1][0] in ("c", "m") and rv[1][1][0] == 1:
            pj = [e for e in rv[1][1][1] if e != "*"]
            if len(pj) == 1 and pj[0][0] == "f":
                out.setdefault(pj[0][1], f.locals[s[1][0]])
    return out


def effects(prog, f):
    """(bb, description) of mutations of extractor state / root-variant collection inside closure f"""
    fields = set()
    adt = prog.adts.get(EXTRACTOR)
    if adt:
        fields = {fd["name"] for fd in adt["variants"][0]["fields"]}
    ut = upvar_types(f)
    out = []
    for i, j, s in f.assigns():
        rv = s[2]
        # &mut self.<field> or assignment into self.<field>
        targets = []
        if rv[0] == "ref" and rv[1] == "mut":
            targets.append(rv[2])
        targets.append(s[1])
        for pl in targets:
            names = [e[2] for e in pl[1] if not isinstance(e, str) and e[0] == "f"]
            hit = [n for n in names if n in fields]
            if not hit:
                continue
            # rooted (through copies) at an upvar of type &mut Extractor
            at = f.origins([pl[0], []])
            for a in at:
                if a[0] == "param" and a[1] == 1 and a[2] and a[2][0].isdigit():
                    t = ut.get(int(a[2][0]), "")
                    if EXTRACTOR in t and (t.startswith("&mut") or pl is s[1]):
                        if pl is s[1] or rv[1] == "mut":
                            out.append((i, f"writes Extractor.{hit[0]}", s[3]))
    for c in f.calls:
        if c.p in ("alloc::vec::Vec::push", "alloc::vec::Vec::extend", "alloc::vec::Vec::insert") and c.args:
            at = f.origins(c.args[0])
            for a in at:
                if a[0] == "param" and a[1] == 1 and a[2] and a[2][0].isdigit():
                    t = ut.get(int(a[2][0]), "")
                    if t.startswith("&mut alloc::vec::Vec<("):
                        out.append((c.bb, f"pushes onto captured {f.upvars.get((a[2][0],), 'vector')}", c.line))
    return out


def subsumed_false_guard(f, bb):
    for g in guards(f, bb):
        if g.get("truth") is False and g["desc"][0] == "val":
            at = f.origins(g["desc"][1])
            if any(a[0] == "param" and a[1] == 2 and a[2] == ("subsumed",) for a in at):
                return True
    return False


def check_subsumed(chk, prog):
    R = chk.rule("R-SUBSUMED-GUARD", "in closures of Extractor methods that receive an egglog_bridge::ScanEntry, every mutation of Extractor state "
                 "(costs / topo_rnk / parent_edge / topo_rnk_cnt) and every push of a root variant is control dependent on row.subsumed == false")
    n = 0
    for f in prog.lib_fns(["egglog"]):
        if f.kind != "closure" or not (f.root or "").startswith(EXTRACTOR + "::"):
            continue
        if not any("ScanEntry" in t for t in f.locals[1:f.argc + 1]):
            continue
        eff = effects(prog, f)
        if not eff:
            continue
        n += 1
        bad = [(bb, what, line) for (bb, what, line) in eff if not subsumed_false_guard(f, bb)]
        role = sorted({w for _, w, _ in eff})
        key = f"{f.root}:scan-closure:{'+'.join(sorted({w.split('.')[-1].split(' ')[-1] for w in role}))}"
        chk.judge(not bad, R, key, f"{len(eff)} state mutation(s) all under !row.subsumed ({role})",
                  "subsumed rows can reach: " + "; ".join(f"{w} at line {l}" for _, w, l in bad), f.loc)
    chk.floor(R, n, 3, "extractor scan closures with effects (relax, save-best-parent-edge, find-root-variants)")


def check_extractable(chk, prog):
    R = chk.rule("R-EXTRACTABLE-GUARD", "in compute_costs_from_rootsorts, insertions into the reverse index are control dependent on "
                 "decl.unextractable == false, decl.internal_hidden == false and on the tests subtype == Constructor / term_constructor.is_some()")
    f = prog.need(EXTRACTOR + "::compute_costs_from_rootsorts")
    rev = f.var("rev_index")
    if not rev:
        chk.missing(R, "local rev_index")
        return
    sites = []
    for c in f.calls:
        if c.p.endswith(("HashMap::insert", "Vec::push")) and c.args:
            at = f.origins(c.args[0])
            if any((a[0] in ("local",) and a[1] in rev) or (a[0] == "call" and False) for a in at) or _rooted_at(f, c.args[0], rev):
                sites.append(c)
    if not chk.floor(R, len(sites), 2, "insertions into rev_index"):
        return
    for c in sites:
        gs = guards(f, c.bb)
        have = {"unextractable": False, "internal_hidden": False}
        for g in gs:
            if g.get("truth") is False and g["desc"][0] == "val":
                at = f.origins(g["desc"][1])
                for a in at:
                    p = a[-1] if a[0] in ("param", "call", "local") else ()
                    if p and p[-1] in ("unextractable", "internal_hidden"):
                        have[p[-1]] = True
        # the disjunction (subtype == Constructor || term_constructor.is_some()): every path to the
        # insertion takes the true edge of one of the two tests
        dis_edges = set()
        for g in may_guards(f, c.bb):
            if g.get("rel") == "Eq":
                for side in (g["a"], g["b"]):
                    if any(a[-1] and a[-1][-1] == "subtype" for a in f.origins(side) if a[0] in ("param", "call", "local")):
                        dis_edges.add(g["at"])
            if g.get("truth") is True and g["desc"][0] == "call" and g["desc"][1].p.endswith("Option::is_some"):
                if any(a[-1] and a[-1][-1] == "term_constructor" for a in f.origins(g["desc"][1].args[0]) if a[0] in ("param", "call", "local")):
                    dis_edges.add(g["at"])
        dis_ok = bool(dis_edges) and not reachable_without_edges(f, c.bb, dis_edges)
        ok = have["unextractable"] and have["internal_hidden"] and dis_ok
        missing = [k for k, v in have.items() if not v] + ([] if dis_ok else ["subtype == Constructor || term_constructor.is_some()"])
        chk.judge(ok, R, f"{f.name}:rev_index-insert:{c.p.rsplit('::', 1)[1]}",
                  "insertion guarded by !unextractable, !internal_hidden and the constructor/view test",
                  f"insertion into the reverse index is not guarded by: {missing}", c.loc)
    # both halves of the disjunction must still be tested somewhere on the way
    tests = {"subtype": False, "term_constructor": False}
    for c in sites:
        for g in may_guards(f, c.bb):
            if g.get("rel") in ("Eq", "Ne"):
                for side in (g["a"], g["b"]):
                    if any(a[-1] and a[-1][-1] == "subtype" for a in f.origins(side) if a[0] in ("param", "call", "local")):
                        tests["subtype"] = True
            if "truth" in g and g["desc"][0] == "call" and g["desc"][1].p.endswith("Option::is_some"):
                if any(a[-1] and a[-1][-1] == "term_constructor" for a in f.origins(g["desc"][1].args[0]) if a[0] in ("param", "call", "local")):
                    tests["term_constructor"] = True
    chk.judge(all(tests.values()), R, f"{f.name}:constructor-or-view-test",
              "both `subtype == Constructor` and `term_constructor.is_some()` are tested before insertion",
              f"tests missing on the way to the reverse-index insertion: {[k for k, v in tests.items() if not v]}", f.loc)


def _rooted_at(f, operand, locals_):
    seen = set()
    work = [operand]
    for _ in range(12):
        nxt = []
        for o in work:
            if o[0] not in ("c", "m"):
                continue
            l = o[1][0]
            if l in locals_:
                return True
            if l in seen:
                continue
            seen.add(l)
            for (bb, idx, dproj, kind, payload) in f.defs.get(l, []):
                if kind == "a":
                    rv = payload
                    if rv[0] in ("ref", "rawptr"):
                        nxt.append(["c", rv[2]])
                    elif rv[0] == "use":
                        nxt.append(rv[1])
                    elif rv[0] == "cast":
                        nxt.append(rv[2])
                else:
                    if payload.args:
                        nxt.append(payload.args[0])
        work = nxt
        if not work:
            break
    return False


def check_rank(chk, prog):
    R = chk.rule("R-RANK-GUARD", "the insertion into Extractor.parent_edge is control dependent on (a) equality of the class's best cost with "
                 "compute_cost_hyperedge(row) and (b) target rank > compute_topo_rnk_hyperedge(row) (strict: cycle guard)")
    n = 0
    for f in prog.lib_fns(["egglog"]):
        if f.kind != "closure" or not (f.root or "").startswith(EXTRACTOR + "::"):
            continue
        eff = [e for e in effects(prog, f) if e[1] == "writes Extractor.parent_edge"]
        if not eff:
            continue
        # the actual insertion: VacantEntry::insert / HashMap::insert after the &mut parent_edge borrow
        ins = [c for c in f.calls if c.p.endswith(("VacantEntry::insert", "HashMap::insert", "OccupiedEntry::insert"))]
        for c in ins:
            n += 1
            gs = guards(f, c.bb)
            rank_ok = cost_ok = False
            for g in gs:
                if "rel" not in g:
                    continue
                ca = {a[1] for a in f.origins(g["a"]) if a[0] == "call"}
                cb = {a[1] for a in f.origins(g["b"]) if a[0] == "call"}
                hyper = EXTRACTOR + "::compute_topo_rnk_hyperedge"
                if (g["rel"] == "Gt" and hyper in cb and hyper not in ca) or (g["rel"] == "Lt" and hyper in ca and hyper not in cb):
                    rank_ok = True
                cost = EXTRACTOR + "::compute_cost_hyperedge"
                if g["rel"] == "Eq" and ((cost in ca) != (cost in cb)):
                    cost_ok = True
            chk.judge(rank_ok and cost_ok, R, f"{f.root}:parent-edge-insert",
                      "parent edge recorded only under best-cost equality and strict rank decrease",
                      f"parent edge insertion not guarded by: {[n_ for n_, v in (('strict rank test', rank_ok), ('best-cost equality', cost_ok)) if not v]}", c.loc)
    chk.floor(R, n, 1, "parent_edge insertion sites")


def check_cost(chk, prog):
    R = chk.rule("R-COST-NO-WRAP", "integer implementations of Cost::combine contain no Add/AddWithOverflow/AddUnchecked and no wrapping/overflowing/unchecked add call")
    ints = ("u8", "u16", "u32", "u64", "u128", "usize", "i8", "i16", "i32", "i64", "i128", "isize")
    n = 0
    for t in ints:
        for f in prog.fn_multi.get(f"<{t} as egglog::extract::Cost>::combine", []):
            n += 1
            bad = []
            for i, j, s in f.assigns():
                if s[2][0] == "bin" and s[2][1] in ("Add", "AddWithOverflow", "AddUnchecked"):
                    bad.append(f"{s[2][1]} at line {s[3]}")
            for c in f.calls:
                if c.p.rsplit("::", 1)[-1] in ("wrapping_add", "overflowing_add", "unchecked_add"):
                    bad.append(c.p)
            sat = [c.p for c in f.calls if "saturating" in c.p or "checked_add" in c.p]
            chk.judge(not bad and bool(sat), R, f"<{t} as Cost>::combine", f"saturating combine ({sat})",
                      f"combine can wrap or panic: {bad or 'no saturating/checked add found'}", f.loc)
    chk.floor(R, n, 12, "integer Cost::combine implementations")


def _avoiding_reaches_ret(h, start, need):
    seen = set()
    stack = [start]
    while stack:
        x = stack.pop()
        if x in seen or x in need:
            continue
        seen.add(x)
        if h.term(x)[0] == "ret":
            return True
        stack.extend(h.succ[x])
    return False


def _always_followed(h, start, need):
    """every path from `start` to a return passes a block of `need` — directly, or through the repo's flag idiom:
    `flag = true` is set on every path from `start`, and the `need` blocks run on every path of the `if flag { .. }` arm"""
    from ..util import trace_back
    if not need:
        return False
    if not _avoiding_reaches_ret(h, start, need):
        return True
    flags = set()
    for b in need:
        for g in guards(h, b):
            if g.get("truth") is True and g["desc"][0] == "val":
                l = trace_back(h, g["desc"][1])
                if l is not None:
                    flags.add((l, g["at"]))
    for (U, (sw, succ)) in flags:
        set_true = {bb for (bb, idx, dproj, kind, payload) in h.defs.get(U, []) if kind == "a" and payload[0] == "use" and payload[1][0] == "k" and payload[1][1].startswith("true")}
        set_false = {bb for (bb, idx, dproj, kind, payload) in h.defs.get(U, []) if kind == "a" and payload[0] == "use" and payload[1][0] == "k" and payload[1][1].startswith("false")}
        if not set_true:
            continue
        # from start, the test of the flag is not reachable without setting it
        seen = set()
        stack = [start]
        hit = False
        while stack:
            x = stack.pop()
            if x in seen or x in set_true:
                continue
            seen.add(x)
            if x == sw or h.term(x)[0] == "ret":
                hit = True
                break
            stack.extend(h.succ[x])
        if hit:
            continue
        # the flag is not reset between being set and being tested
        if any(fb in h.reach(tb) and sw in h.reach(fb) for tb in set_true for fb in set_false):
            continue
        # inside the `if flag` arm the needed block always runs
        if not _avoiding_reaches_ret(h, succ, need):
            return True
    return False


def check_relax_fixpoint(chk, prog):
    R = chk.rule("R-RELAX-FIXPOINT", "Extractor::bellman_ford: in the relaxation closure every write of a class cost (VacantEntry::insert / OccupiedEntry::insert on `costs`) is followed on "
                 "every path by the store `ensure_fixpoint = false` (so the outer `while !ensure_fixpoint` loop runs another pass) and by the insertion of a fresh, incremented rank into "
                 "topo_rnk; an existing cost is only overwritten under `new_cost < old`; compute_cost_hyperedge folds the costs of ALL children: a plain loop over "
                 "row.vals.iter().take(extraction_num_children()).zip(input sorts) in which every iteration pushes the child's cost or returns None")
    bf = prog.need("egglog::extract::Extractor::bellman_ford")
    relax = None
    for h in prog.children(bf):
        if any(c.p.endswith("OccupiedEntry::insert") for c in h.calls) and any(c.p.endswith("compute_cost_hyperedge") for c in h.calls):
            relax = h
    if relax is None:
        chk.missing(R, "relaxation closure of bellman_ford (overwrites an occupied cost entry)")
        return
    h = relax
    flag_idx = [k for k, n in h.upvars.items() if n == "ensure_fixpoint"]
    stores = set()
    for i, j, s in h.assigns():
        if s[2][0] == "use" and s[2][1][0] == "k" and s[2][1][1].startswith("false") and "*" in [e for e in s[1][1] if isinstance(e, str)]:
            # the destination is a deref of a copy of the captured &mut bool
            at = h.origins([s[1][0], []])
            if any(a[0] == "param" and a[1] == 1 and a[2] and h.locals[s[1][0]].startswith("&mut bool") for a in at):
                stores.add(i)
    def on_field(operand, field, depth=0):
        for a in h.origins(operand):
            if a[0] == "param" and field in a[2]:
                return True
            if a[0] == "call" and depth < 3 and a[1].rsplit("::", 1)[-1] in ("get_mut", "get", "entry"):
                cc = h.call_at(a[2])
                if cc is not None and cc.args and on_field(cc.args[0], field, depth + 1):
                    return True
        return False
    ranks = {c.bb for c in h.calls if c.p.endswith("HashMap::insert") and on_field(c.args[0], "topo_rnk")}
    writes = [c for c in h.calls if c.p.endswith(("VacantEntry::insert", "OccupiedEntry::insert"))]
    ok = bool(stores) and bool(ranks) and len(writes) >= 2
    why = []
    for w in writes:
        for need, what in ((stores, "ensure_fixpoint = false"), (ranks, "a topo_rnk update")):
            if not _always_followed(h, w.bb, need):
                ok = False
                why.append(f"{w.p.rsplit('::', 2)[-2]}::insert at line {w.line} can return without {what}")
        if w.p.endswith("OccupiedEntry::insert"):
            lt = any(g.get("rel") == "Lt" for g in guards(h, w.bb))
            if not lt:
                ok = False
                why.append("an existing cost is overwritten without the `new_cost < old` test")
    # the rank written is the incremented counter
    chk.judge(ok, R, "Extractor::bellman_ford:relax", "every cost improvement forces another pass and gets a fresh rank; overwrite only on strict improvement",
              "; ".join(why) or "relaxation closure does not record improvements (no ensure_fixpoint store / rank update found)", h.loc)
    # the outer loop exits only on the flag
    sw_ok = False
    for b in sorted(bf.live):
        t = bf.term(b)
        if t[0] == "switch":
            d = bf.describe_operand(t[1])
            neg = False
            while d and d[0] == "not":
                neg = not neg
                d = d[1]
            if d and d[0] == "val":
                l = d[1][1][0] if d[1][0] in ("c", "m") else None
                if l is not None and bf.varnames.get(l) == "ensure_fixpoint" or (l is not None and any(bf.varnames.get(a[1]) == "ensure_fixpoint" for a in bf.origins(d[1]) if a[0] == "local")):
                    sw_ok = True
    chk.judge(sw_ok, R, "Extractor::bellman_ford:loop", "the relaxation passes repeat until a pass without improvement", "the outer loop of bellman_ford is not controlled by ensure_fixpoint", bf.loc)
    # compute_cost_hyperedge
    g = prog.need("egglog::extract::Extractor::compute_cost_hyperedge")
    takes = [c for c in g.calls if c.p.endswith("Iterator::take")]
    ok_t = bool(takes) and all(any(a[0] == "call" and a[1].endswith("extraction_num_children") for a in g.origins(c.args[1])) for c in takes)
    nx = [c for c in g.calls if c.p.endswith("Iterator>::next") or c.p.endswith("Iterator::next")]
    ok_l = False
    if len(nx) == 1:
        n0 = nx[0]
        at = g.origins(n0.args[0])
        chain_ok = bool(at) and all(a[0] == "call" and a[1].endswith("Iterator::zip") for a in at)
        sw = n0.target
        some = [tb for v, tb in g.term(sw)[2] if v == "1"] if g.term(sw)[0] == "switch" else []
        pushes = {c.bb for c in g.calls if c.p.endswith("Vec::push") and any(a[0] == "call" and a[1].endswith("compute_cost_node") for a in g.origins(c.args[1]))}
        if some and pushes and chain_ok:
            from ..util import escapes
            ok_l = not escapes(g, some[0], pushes, n0.bb)
    chk.judge(ok_t and ok_l, R, "Extractor::compute_cost_hyperedge:all-children", "the cost of every child column (up to extraction_num_children) enters the fold",
              "compute_cost_hyperedge can skip a child's cost (bound is not extraction_num_children(), or an iteration continues without pushing the child's cost): the reported "
              "cost is lower than the tree cost of the term", g.loc)


def check_reachable_sorts(chk, prog):
    """which constructor tables the extractor looks at: a breadth-first walk from the root sorts through container element sorts and
    constructor argument sorts. A sort that is filtered out of the walk takes all of its constructors out of extraction."""
    R = chk.rule("R-REACHABLE-SORTS", "Extractor::compute_costs_from_rootsorts: the reachability walk enqueues (a) every inner sort of a container sort — a plain loop over "
                 "Sort::inner_sorts() with no adapter — and (b) every argument sort of a reachable constructor — a loop over func_type.input limited only by "
                 "take(extraction_num_children()); in both loops an iteration either enqueues the sort or found it in `seen` (the only test between the loop head and push_back is "
                 "the `seen.contains` check)")
    f = prog.need("egglog::extract::Extractor::compute_costs_from_rootsorts")
    pushes = {c.bb for c in f.calls if c.p.endswith("VecDeque::push_back")}
    n = 0
    for c in f.calls:
        if not (c.p.endswith("Iterator>::next") or c.p.endswith("Iterator::next")):
            continue
        at = f.origins(c.args[0])
        kind = None
        if at and all(a[0] == "call" and a[1].endswith("Sort::inner_sorts") for a in at):
            kind = "container-elements"
        elif at and all(a[0] == "call" and a[1].endswith("Iterator::take") for a in at):
            tk = f.call_at(list(at)[0][2])
            src = f.origins(tk.args[0])
            cnt = f.origins(tk.args[1])
            if any(atom_ok(a, "input") for a in src) and any(a[0] == "call" and a[1].endswith("extraction_num_children") for a in cnt):
                kind = "constructor-arguments"
        if kind is None:
            # an adapter (filter / skip / take ...) between inner_sorts() and the loop?
            def chain(o, d=0):
                out = set()
                for a in f.origins(o):
                    if a[0] == "call" and d < 4:
                        out.add(a[1])
                        cc = f.call_at(a[2])
                        if cc is not None and cc.args:
                            out |= chain(cc.args[0], d + 1)
                return out
            names = chain(c.args[0])
            if any(x.endswith("Sort::inner_sorts") for x in names):
                n += 1
                adapters = sorted({x.rsplit("::", 1)[-1] for x in names if "iter::" in x and not x.endswith(("::into_iter", "::iter"))})
                chk.bad(R, "compute_costs_from_rootsorts:container-elements",
                        f"the loop over a container sort's inner sorts goes through an adapter ({', '.join(adapters)}): some element sorts are never enqueued, so constructors reachable only "
                        "through them (e.g. the elements of a nested container) never enter the extractor", c.loc)
            continue
        n += 1
        sw = c.target
        some = [tb for v, tb in f.term(sw)[2] if v == "1"] if sw is not None and f.term(sw)[0] == "switch" else []
        ok = bool(some)
        why = "loop shape not recognised"
        if ok:
            # edges allowed to skip the push: the `seen.contains(..) == true` edge
            from ..util import edge_relation
            seen_b = set()
            stack = [some[0]]
            reached = False
            while stack:
                x = stack.pop()
                if x in seen_b or x in pushes:
                    continue
                seen_b.add(x)
                if x == c.bb:
                    reached = True
                    break
                for sx in f.succ[x]:
                    er = edge_relation(f, x, sx)
                    if er and er.get("truth") is True and er["desc"][0] == "call" and er["desc"][1].p.endswith("HashSet::contains"):
                        continue
                    stack.append(sx)
            ok = not reached
            why = "an iteration can move on without enqueuing a sort that is not in `seen`"
        chk.judge(ok, R, f"compute_costs_from_rootsorts:{kind}", f"every {kind.replace('-', ' ')[:-1]} sort is enqueued unless already seen",
                  why + ": the constructors of that sort never enter the extractor, so terms containing them cannot be extracted (or a costlier alternative is returned)", c.loc)
    # the filtered form (an adapter between the source and the loop) is not matched above at all: require both loops to exist
    chk.floor(R, n, 2, "reachability loops (container element sorts, constructor argument sorts)")


def atom_ok(a, field):
    p = a[2] if a[0] == "param" else a[3] if a[0] == "call" else a[2] if a[0] in ("local", "var") else ()
    return field in (p or ())


def run(chk, prog, tier):
    chk.explanation = EXPLANATION
    chk.assumptions = ["rustc nightly MIR construction", "deleted rows are invisible to scans (decided under C16 R-RAW-ROWS)"]
    check_subsumed(chk, prog)
    check_extractable(chk, prog)
    check_rank(chk, prog)
    check_cost(chk, prog)
    check_relax_fixpoint(chk, prog)
    check_reachable_sorts(chk, prog)
    # the extractor reads tables through the batched row scans of the bridge: the last partial batch must not be lost
    from . import scan_common
    scan_common.check_scan_batches(chk, prog, only=lambda f: f.crate in ("egglog_bridge", "egglog") or "for_each_matching_col" in f.name, floor=4)
