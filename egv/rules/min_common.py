"""R-MIN (C01/C14/C17): the engine's merge-on-conflict picks the same representative as the union-find."""
from ..util import check_selects, whole_defs, fmt_atoms


def bridge_min_sites(prog):
    """functions/closures of egglog_bridge that stage [a, b, ts] into the uf table and return a Value"""
    out = []
    for f in prog.lib_fns(["egglog_bridge"]):
        if not f.locals[0].endswith("::Value"):
            continue
        for c in f.calls:
            if not c.is_("ExecutionState::stage_insert"):
                continue
            ta = f.origins(c.args[1])
            is_uf = False
            for a in ta:
                if a[0] == "param" and a[2]:
                    nm = a[2][-1]
                    if nm == "uf_table" or f.upvars.get((nm,)) == "uf_table" or f.upvars.get(tuple(a[2])) == "uf_table":
                        is_uf = True
            if not is_uf:
                continue
            # the row: array aggregate [a, b, ts]
            ra = c.args[2]
            elems = None
            l = ra
            for _ in range(5):
                if l[0] not in ("c", "m"):
                    break
                d = f.single_def(l[1][0])
                if d is None or d[3] != "a":
                    break
                rv = d[4]
                if rv[0] == "agg" and rv[1] == "array":
                    elems = rv[4]
                    break
                if rv[0] in ("ref", "rawptr"):
                    l = ["c", rv[2]]
                elif rv[0] == "cast":
                    l = rv[2]
                elif rv[0] == "use":
                    l = rv[1]
                else:
                    break
            out.append((f, c, elems))
    return out


def check_bridge_min(chk, prog, R):
    sites = bridge_min_sites(prog)
    chk.floor(R, len(sites), 2, "bridge functions that stage a union and return the surviving id (ResolvedMergeFn::run UnionId arm, register_container_ty closure)")
    for f, c, elems in sites:
        key = f"{f.root or f.name}:union-merge"
        if not elems or len(elems) != 3:
            chk.bad(R, key, "cannot identify the staged [a, b, ts] row", c.loc)
            continue
        A, B = f.origins(elems[0]), f.origins(elems[1])
        # definitions of the return place that are control dependent on the staging branch or its sibling
        # (restrict to the region dominated by the comparison guarding the stage_insert)
        gb = None
        for (b, s) in f.ctrl.get(c.bb, ()):
            gb = b
        defs = whole_defs(f, 0)
        if gb is not None:
            defs = [d for d in defs if f.dominates(gb, d[0])]
        problems, n_sel = check_selects(f, defs, A, B, "min")
        if not problems and n_sel == 0:
            problems = ["no selection of the minimum found on the staging path"]
        chk.judge(not problems, R, key,
                  f"returns min(a,b) of the two ids it stages into the union-find table ({len(defs)} return definitions, {n_sel} min selections)",
                  "; ".join(problems), c.loc, a=fmt_atoms(A), b=fmt_atoms(B))


def check_uf_union(chk, prog, R):
    """sequential UnionFind::union links max -> min of two find() results"""
    f = prog.need("egglog_union_find::UnionFind::union")
    stores = []
    for i, j, s in f.assigns():
        dst = s[1]
        if dst[1] == ["*"]:
            at = f.origins([dst[0], []])
            # destination reference comes from IndexMut on self.parents
            d = f.single_def(dst[0])
            if d and d[3] == "call" and d[4].p.endswith("IndexMut>::index_mut"):
                base = f.origins(d[4].args[0])
                if any(a[0] == "param" and a[1] == 1 and a[2] and a[2][0] == "parents" for a in base):
                    stores.append((i, j, s, d[4]))
    if not chk.floor(R, len(stores), 1, "store into UnionFind.parents in UnionFind::union"):
        return
    finds = [c for c in f.calls if c.is_("UnionFind::find")]
    if len(finds) < 2:
        chk.missing(R, "two find() calls in UnionFind::union")
        return
    A = {("call", finds[0].p, finds[0].bb, ())}
    B = {("call", finds[1].p, finds[1].bb, ())}
    for i, j, s, idxcall in stores:
        key = "egglog_union_find::UnionFind::union:link"
        # stored value
        vdefs = _operand_defs(f, s[2][1]) if s[2][0] == "use" else []
        pv, nv = check_selects(f, vdefs, A, B, "min")
        # index: `.index()` of a max
        idx_op = idxcall.args[1]
        idefs = []
        d = f.single_def(idx_op[1][0]) if idx_op[0] in ("c", "m") else None
        if d and d[3] == "call" and d[4].is_("NumericId::index", "index"):
            idefs = _operand_defs(f, d[4].args[0])
        pi, ni = check_selects(f, idefs, A, B, "max")
        probs = [f"stored parent: {p}" for p in pv] + [f"slot index: {p}" for p in pi]
        if not vdefs or nv == 0:
            probs.append("stored parent is not a min of the two roots")
        if not idefs or ni == 0:
            probs.append("written slot is not the max of the two roots")
        chk.judge(not probs, R, key, "parents[max(find a, find b)] = min(find a, find b): larger root is linked under the smaller",
                  "; ".join(probs), f"{f.file}:{s[3]}")


def _operand_defs(fn, o, depth=5):
    """definitions reaching operand o (through plain copies and through fields of tuple/struct
    aggregates: `let (p, c) = if a < b { (a, b) } else { (b, a) }`)"""
    for _ in range(depth):
        if o[0] not in ("c", "m"):
            return []
        if o[1][1]:
            # projection: expand aggregate definitions field-sensitively
            pj = [e for e in o[1][1] if not isinstance(e, str)]
            if len(pj) == 1 and pj[0][0] == "f":
                ds = [(bb, idx, kind, payload) for (bb, idx, dproj, kind, payload) in fn.defs.get(o[1][0], []) if not dproj]
                if ds and all(k == "a" and p[0] == "agg" and p[1] in ("tuple", "adt") and pj[0][1] < len(p[4]) for (_, _, k, p) in ds):
                    return [(bb, idx, "a", ["use", p[4][pj[0][1]]]) for (bb, idx, k, p) in ds]
            return []
        ds = [(bb, idx, kind, payload) for (bb, idx, dproj, kind, payload) in fn.defs.get(o[1][0], []) if not dproj]
        if len(ds) == 1 and ds[0][2] == "a" and ds[0][3][0] == "use" and ds[0][3][1][0] in ("c", "m"):
            o = ds[0][3][1]
            continue
        return ds
    return []
