"""C03 — semi-naive evaluation is observationally identical to naive evaluation.

Decides (structural):
  R-DELTA      the delta decomposition built in add_rules_from_cached: only GeConst/LtConst timestamp
               constraints on mid_ts, ts column and atom id taken from the same atom, one GeConst focus per
               variant, LtConst on the atoms before the focus
  R-LASTRUN    last_run_at is stored after the variants were built from the old value, with the `next_ts`
               the caller read before running (no inc_ts in between); frozen set of writers
  R-RESTAMP    every row re-inserted by a table rebuild/refresh is stamped with next_ts in its sort column
  R-TSADVANCE  after merging staged writes the timestamp advances before control returns
"""
from ..util import edge_relation, guards, fmt_atoms, field_writes, variant_is
from . import rebuild_common as rc

EXPLANATION = (
    "Static clause of C03 decided on MIR: the delta decomposition has the only shape that loses no match and duplicates none "
    "(new >= mid_ts for the focus atom, old < mid_ts for the atoms before it, columns and atom ids paired), and the timestamp "
    "protocol it relies on is followed on every path (last_run_at bookkeeping, re-stamping of rebuilt rows, epoch advance). "
    "Not decided: equality of the semi-naive and naive databases for all programs."
)

BR = "egglog_bridge::"
ARFC = BR + "rule::Query::add_rules_from_cached"


def _index_local(f, operand):
    """for an operand originating from `base[idx]` (Index::index call): (base atoms, idx operand)"""
    at = f.origins(operand)
    out = []
    for a in at:
        pass
    # walk single defs to the Index::index call
    o = operand
    for _ in range(8):
        if o[0] not in ("c", "m"):
            return None
        d = f.single_def(o[1][0])
        if d is None:
            return None
        if d[3] == "call":
            c = d[4]
            if c.p.endswith("Index>::index"):
                return c
            if c.args:
                o = c.args[0]
                continue
            return None
        rv = d[4]
        if rv[0] == "use":
            o = rv[1]
        elif rv[0] in ("ref", "rawptr"):
            o = ["c", [rv[2][0], []]] if rv[2][0] != o[1][0] else None
            if o is None:
                return None
        elif rv[0] == "cast":
            o = rv[2]
        else:
            return None
    return None


def check_delta(chk, prog):
    R = chk.rule("R-DELTA", "in Query::add_rules_from_cached every Constraint is GeConst or LtConst with val = mid_ts.to_value() and col = ts_col of an atom "
                 "paired with cached_plan.atom_mapping of the same atom index; each variant has one GeConst (focus) pushed first after clear(), LtConst only in a loop over atoms[0..focus]")
    f = prog.need_role(ARFC, lambda g: g.crate == "egglog_bridge" and len([c for c in g.calls if c.p.endswith("add_rule_from_cached_plan")]) >= 2,
                       "bridge function building several variants with add_rule_from_cached_plan")
    mid = [i for i in range(1, f.argc + 1) if f.locals[i].endswith("Timestamp")]
    if not mid:
        chk.missing(R, "Timestamp parameter of add_rules_from_cached")
        return
    mid = mid[0]
    cons = []
    for i, j, s in f.assigns():
        rv = s[2]
        if rv[0] == "agg" and rv[2].endswith("::Constraint"):
            cons.append((i, j, s))
    kinds = [s[2][3] for _, _, s in cons]
    chk.judge(sorted(kinds) == ["GeConst", "GeConst", "LtConst"], R, ARFC + ":constraint-kinds",
              "constraints built: GeConst (sole focus), GeConst (focus), LtConst (older atoms)",
              f"timestamp constraints built are {sorted(kinds)} (expected GeConst, GeConst, LtConst): Gt loses rows stamped exactly mid_ts, Le fires twice", f.loc)
    adt = prog.adts.get(next((s[2][2] for _, _, s in cons), ""), None)
    for n, (i, j, s) in enumerate(cons):
        rv = s[2]
        variant = rv[3]
        v = next(x for x in adt["variants"] if x["name"] == variant) if adt else None
        names = [fd["name"] for fd in v["fields"]] if v else ["col", "val"]
        col, val = rv[4][names.index("col")], rv[4][names.index("val")]
        va = f.origins(val)
        val_ok = bool(va) and all(a[0] == "call" and a[1].endswith("Timestamp::to_value") for a in va)
        if val_ok:
            for a in va:
                c = f.call_at(a[2])
                if f.origins(c.args[0]) != {("param", mid, ())}:
                    val_ok = False
        ca = f.origins(col)
        col_ok = bool(ca) and all(a[0] == "call" and a[1].endswith("from_usize") for a in ca)
        schema_src = None
        if col_ok:
            for a in ca:
                c = f.call_at(a[2])
                ta = f.origins(c.args[0])
                if not all(x[0] == "call" and x[1].endswith("SchemaMath::ts_col") for x in ta):
                    col_ok = False
                else:
                    for x in ta:
                        schema_src = f.call_at(x[2]).args[0]
        # pairing: find the tuple (atom_mapping[..], this constraint)
        pair_ok = False
        why = "constraint is not paired with an atom id"
        for i2, j2, s2 in f.assigns():
            if s2[2][0] == "agg" and s2[2][1] == "tuple" and len(s2[2][4]) == 2:
                oa = f.origins(s2[2][4][1])
                if not any(a[0] == "agg" and a[4] == i and a[5] == j for a in oa):
                    continue
                idc = _index_local(f, s2[2][4][0])
                if idc is None:
                    why = "atom id does not come from an indexing expression"
                    continue
                base = f.origins(idc.args[0])
                if not any(a[0] == "param" and "atom_mapping" in a[2] for a in base):
                    why = "atom id is not taken from cached_plan.atom_mapping"
                    continue
                idx_at = f.origins(idc.args[1])
                # schema side
                sa = f.origins(schema_src) if schema_src else set()
                sidx = _index_local(f, schema_src) if schema_src else None
                if sidx is not None and any(a[0] == "param" and a[1] == 1 and "atoms" in a[2] for a in f.origins(sidx.args[0])):
                    if f.origins(sidx.args[1]) == idx_at:
                        pair_ok = True
                    else:
                        why = "ts column and atom id are taken from different atom indices"
                else:
                    # enumerate() item: both come from the same Iterator::next call
                    nx = {a[2] for a in sa if a[0] == "call" and a[1].endswith("Iterator>::next")}
                    nx2 = {a[2] for a in idx_at if a[0] == "call" and a[1].endswith("Iterator>::next")}
                    if nx and nx == nx2:
                        # the enumerated slice starts at 0 of self.atoms
                        starts0 = any(st[2][0] == "agg" and st[2][2] == "core::ops::range::Range" and st[2][4][0][0] == "k" and st[2][4][0][1].startswith("0")
                                      for _, _, st in f.assigns())
                        pair_ok = starts0
                        if not starts0:
                            why = "enumerate index is not aligned with atoms[0..]"
                    else:
                        why = "ts column and atom id do not come from the same atom"
        chk.judge(val_ok and col_ok and pair_ok, R, f"{ARFC}:{variant}#{kinds[:n].count(variant)}",
                  f"{variant}: val = mid_ts.to_value(), col = ts_col(atom i), atom id = atom_mapping[i]",
                  f"{variant}: val-from-mid_ts={val_ok} col-from-ts_col={col_ok} paired={pair_ok} ({why})", f"{f.file}:{s[3]}")
    # structure of the loop variant: clear dominates Ge push dominates Lt loop and the add_rule call
    clears = f.calls_to("alloc::vec::Vec::clear")
    pushes = f.calls_to("alloc::vec::Vec::push")
    adds = [c for c in f.calls if c.p.endswith("add_rule_from_cached_plan")]
    ge_push = lt_push = None
    for c in pushes:
        at = f.origins(c.args[1])
        for a in at:
            if a[0] == "agg" and a[1] == "tuple":
                st = f.stmt(a[4], a[5])
                ka = f.origins(st[2][4][1])
                for k in ka:
                    if k[0] == "agg" and k[3] == "GeConst":
                        ge_push = c
                    if k[0] == "agg" and k[3] == "LtConst":
                        lt_push = c
    ok = bool(clears and ge_push and lt_push and adds)
    if ok:
        final = [a for a in adds if f.dominates(ge_push.bb, a.bb)]
        ok = bool(final) and any(f.dominates(c.bb, ge_push.bb) and c.bb in f.reach(c.bb) for c in clears) \
            and f.dominates(ge_push.bb, lt_push.bb) and ge_push.bb not in f.reach(ge_push.bb) - f.reach(clears[0].bb) \
            and lt_push.bb in f.reach(lt_push.bb)
        # the Lt range ends at the focus index: Range{0, focus} where focus is the outer loop variable
        rng_ok = False
        for i, j, s in f.assigns():
            if s[2][0] == "agg" and s[2][2] == "core::ops::range::Range":
                lo, hi = s[2][4]
                ha = f.origins(hi)
                if lo[0] == "k" and lo[1].startswith("0") and any(a[0] == "call" and a[1].endswith("Iterator>::next") for a in ha):
                    rng_ok = True
        ok = ok and rng_ok
    chk.judge(ok, R, ARFC + ":variant-shape", "per variant: clear(), one GeConst for the focus, LtConst for atoms[0..focus], then add_rule_from_cached_plan",
              "the per-focus variant no longer has the shape clear(); push(Ge focus); for i in 0..focus push(Lt i); add", f.loc)


def check_lastrun(chk, prog):
    R = chk.rule("R-LASTRUN", "run_rules_impl stores next_ts into RuleInfo.last_run_at after add_rules_from_cached read the old value; callers pass a next_ts() "
                 "read with no inc_ts between the read and the call; writers of last_run_at are the frozen set")
    f = prog.need_role(BR + "run_rules_impl", lambda g: g.crate == "egglog_bridge" and bool(g.calls_to("Database::run_rule_set")),
                       "bridge function calling Database::run_rule_set")
    nts = [i for i in range(1, f.argc + 1) if f.locals[i].endswith("Timestamp")]
    stores = list(field_writes(f, "last_run_at"))
    adds = f.calls_to(ARFC)
    ok = bool(nts and stores and adds)
    why = "anchors missing"
    if ok:
        for i, j, s in stores:
            va = f.origins(s[2][1]) if s[2][0] == "use" else set()
            if va != {("param", nts[0], ())}:
                ok = False
                why = f"last_run_at is assigned {fmt_atoms(va)} instead of the next_ts parameter"
            if not any(f.pos_dominates((a.bb, 10 ** 6), (i, j)) for a in adds):
                ok = False
                why = "last_run_at is updated before the semi-naive variants were built from the old value"
        for a in adds:
            ma = f.origins(a.args[2])
            if not any(x[-1] and x[-1][-1] == "last_run_at" for x in ma if x[0] in ("call", "param", "local")):
                ok = False
                why = "add_rules_from_cached is not given info.last_run_at as mid_ts"
    chk.judge(ok, R, BR + "run_rules_impl:bookkeeping", "variants built from old last_run_at, then last_run_at := next_ts", why, f.loc)
    # a rule that has never run must look at everything: last_run_at starts at timestamp 0
    inits = []
    for g in prog.lib_fns(["egglog_bridge"]):
        if g.derived or (g.root or g.name).endswith("Clone>::clone"):
            continue  # a clone copies the value
        for i, j, s_ in g.assigns():
            if s_[2][0] == "agg" and s_[2][2] == BR + "RuleInfo":
                adt = prog.adts[BR + "RuleInfo"]
                names = [fd["name"] for fd in adt["variants"][0]["fields"]]
                at = g.origins(s_[2][4][names.index("last_run_at")])
                ok0 = bool(at)
                for a in at:
                    if a[0] == "call" and a[1].endswith("NumericId>::new"):
                        c0 = g.call_at(a[2])
                        if not (c0.args and c0.args[0][0] == "k" and c0.args[0][1].startswith("0")):
                            ok0 = False
                    else:
                        ok0 = False
                inits.append((g, ok0, s_[3]))
    chk.floor(R, len(inits), 1, "RuleInfo constructions")
    for g, ok0, line in inits:
        chk.judge(ok0, R, f"{g.root or g.name}:last_run_at-init", "a new rule starts with last_run_at = Timestamp(0): its first run sees every row, however old",
                  "a new rule does not start at timestamp 0: rows written before the rule was added are never matched (semi-naive only looks at rows stamped >= last_run_at)",
                  f"{g.file}:{line}")
    # writers
    model = rc.RebuildModel(prog)
    allowed = {f.name} | set(model.rebuilders)      # by role: the rule-set runner and the rebuilders
    writers = set()
    for g in prog.lib_fns(["egglog_bridge", "egglog"]):
        if list(field_writes(g, "last_run_at")):
            writers.add(g.root or g.name)
    chk.judge(writers <= allowed and f.name in writers, R, "writers-of-RuleInfo.last_run_at", f"writers: {sorted(writers)}",
              f"unexpected writer of RuleInfo.last_run_at: {sorted(writers - allowed)}", None)
    # callers: next_ts read, no inc_ts in between
    n = 0
    for g, c in prog.direct_callers(f.name):
        n += 1
        ta = g.origins(c.args[3])
        reads = [a for a in ta if a[0] == "call" and a[1] == BR + "EGraph::next_ts"]
        okc = False
        why = f"next_ts argument originates from {fmt_atoms(ta)}"
        if g.kind == "closure" and all(a[0] == "param" and a[1] == 1 for a in ta):
            # captured `ts`: resolve in the parent at the closure creation
            par = prog.fns.get(g.parent)
            okc = False
            for (bi, bj, name, ops) in par.closures_created():
                if name == g.name:
                    for a in ta:
                        if a[2] and a[2][0].isdigit():
                            pa = par.origins(ops[int(a[2][0])])
                            rd = [x for x in pa if x[0] == "call" and x[1] == BR + "EGraph::next_ts"]
                            if rd and len(rd) == len(pa):
                                okc = all(_no_inc_between(par, x[2], bi) for x in rd)
                                why = "inc_ts between the next_ts() read and the run"
        elif reads and len(reads) == len(ta):
            okc = all(_no_inc_between(g, a[2], c.bb) for a in reads)
            why = "inc_ts can run between the next_ts() read and run_rules_impl (rows written by the run would carry an old stamp)"
        chk.judge(okc, R, f"{g.root or g.name}:next_ts-arg#{n}", "passes a next_ts() read with no inc_ts before the run", why, c.loc)
    chk.floor(R, n, 4, "callers of the rule-set runner (run_rules_impl)")


def _no_inc_between(g, read_bb, use_bb):
    fwd = g.reach_avoiding([read_bb], {read_bb})
    for c in g.calls_to(BR + "EGraph::inc_ts"):
        if c.bb in fwd:
            # can it still reach the use without re-reading?
            r2 = g.reach_avoiding([c.bb], {read_bb})
            if use_bb in r2:
                return False
    return True


def check_restamp(chk, prog):
    R = chk.rule("R-RESTAMP", "every MutationBuffer::stage_insert in the table rebuild/refresh functions is preceded, on the sort_by = Some path, by a store of next_ts "
                 "into the staged row at index sort_by.index()")
    n = 0
    for g in prog.lib_fns(["egglog_core_relations"]):
        root = g.root or g.name
        if not root.startswith("egglog_core_relations::table::SortedWritesTable::"):
            continue
        for c in g.calls:
            if not c.p.endswith("MutationBuffer::stage_insert"):
                continue
            n += 1
            row_at = g.origins(c.args[1])
            okc = False
            why = "no store of next_ts into the staged row"
            for i, j, s in g.assigns():
                dst = s[1]
                if s[2][0] != "use":
                    continue
                idx = [e for e in dst[1] if not isinstance(e, str) and e[0] == "i"]
                row_place = [dst[0], []]
                if idx:
                    idx_place = [idx[0][1], []]
                else:
                    # `vec[i] = v` on a Vec: store through IndexMut::index_mut(&mut vec, i)
                    d = g.single_def(dst[0]) if dst[1] == ["*"] else None
                    if not (d and d[3] == "call" and d[4].p.endswith("IndexMut>::index_mut")):
                        continue
                    ia0 = d[4].args[1]
                    if ia0[0] not in ("c", "m"):
                        continue
                    idx_place = ia0[1]
                    row_place = d[4].args[0][1]
                # index from sort_by
                ia = g.origins(idx_place)
                from_sort = False
                for a in ia:
                    if a[0] == "call" and a[1].endswith("::index"):
                        sa = g.origins(g.call_at(a[2]).args[0])
                        if any(x[-1] and "sort_by" in x[-1] for x in sa if x[0] in ("param", "call", "local")):
                            from_sort = True
                if not from_sort:
                    continue
                # value is next_ts
                va = g.origins(s[2][1])
                val_ok = False
                for a in va:
                    if a[0] == "param":
                        nm = g.varnames.get(a[1]) if a[1] != 1 or g.kind != "closure" else g.upvars.get(tuple(a[2][:1]))
                        if a[1] == 1 and g.kind == "closure":
                            nm = g.upvars.get(tuple(a[2][:1]))
                        if nm == "next_ts":
                            val_ok = True
                if not val_ok:
                    why = f"the sort column is overwritten with {fmt_atoms(va)}, not next_ts"
                    continue
                # same row
                da = g.origins(row_place)
                if not (da & row_at):
                    why = "next_ts is stored into a different buffer than the staged row"
                    continue
                # on the Some arm, every path to the stage_insert passes the store
                some_edges = []
                for b in g.live:
                    for sc in g.succ[b]:
                        r = edge_relation(g, b, sc)
                        if r and variant_is(r, 1) and any("sort_by" in e for e in r["place"][1] if not isinstance(e, str)):
                            some_edges.append((b, sc))
                dominated = False
                for (b, sc) in some_edges:
                    if g.dominates(b, c.bb) and i in ({sc} | g.reach(sc)):
                        # removing the store block must cut Some-successor from the stage_insert
                        r = g.reach_avoiding([b], {i} | {x for x in g.succ[b] if x != sc})
                        if c.bb not in r:
                            dominated = True
                if dominated:
                    okc = True
                else:
                    why = "the store of next_ts does not cover every path to stage_insert when sort_by is Some"
            chk.judge(okc, R, f"{root}:stage_insert#{'closure' if g.kind == 'closure' else 'fn'}",
                      "re-inserted row is stamped with next_ts in its sort column", why, c.loc)
    chk.floor(R, n, 5, "stage_insert sites in SortedWritesTable rebuild/refresh (incremental x2, non-incremental x2, refresh_rows_for_values)")


def check_tsadvance(chk, prog):
    R = chk.rule("R-TSADVANCE", "after Database::merge_all / run_rule_set (directly or via a propagating callee) every path to a return passes inc_ts or a rebuilder (which calls inc_ts every pass)")
    model = rc.RebuildModel(prog)
    st = model.obligations()
    n = 0
    for name, s in sorted(st.items()):
        if s["status"] not in ("discharged", "mixed"):
            continue
        f = prog.fns[name]
        if f.crate != "egglog_bridge":
            continue
        n += 1
        byname = prog.fns
        acq = []
        for c in f.calls:
            if c.is_(*rc.GROW) and c.p.startswith("egglog_core_relations::"):
                acq.append(c)
            elif st.get(c.p, {}).get("status") == "propagates":
                acq.append(c)
        starts = []
        for c in acq:
            starts.extend(model._acquire_points(f, c, byname))
        good = {c.bb for c in f.calls if c.p == BR + "EGraph::inc_ts" or c.p in model.rebuilders}
        path = rc.RebuildModel._path_to_ret(f, starts, good, set())
        chk.judge(path is None, R, f"{name}:advance", "timestamp advances (inc_ts or rebuild) on every path after the merge",
                  "a path returns after merging staged writes without advancing the timestamp: " + " -> ".join(rc.path_lines(f, path)), f.loc)
    chk.floor(R, n, 2, "bridge functions that merge and discharge (run_rules_inner, flush_updates_inner)")


def check_every_variant(chk, prog):
    """no rule and no focus atom is skipped: a fast path that leaves one out loses exactly the matches whose newest row sits in that atom"""
    from ..util import guards
    R = chk.rule("R-EVERY-VARIANT", "(a) run_rules_impl: the loop that builds the iteration's rule set is a plain loop over the `rules` parameter in which every iteration calls "
                 "add_rules_from_cached and stores last_run_at; (b) add_rules_from_cached: in the loop over focus atoms every iteration reaches add_rule_from_cached_plan, except "
                 "iterations left under the must-guard `mid_ts == Timestamp 0` (first run: the `old` side is empty, so variants with an `old` atom match nothing); the early "
                 "single-variant exits are guarded by `!seminaive`, the same zero test, or `sole_focus`")
    f = prog.need_role(BR + "run_rules_impl", lambda g: g.crate == "egglog_bridge" and bool(g.calls_to("Database::run_rule_set")), "bridge function calling Database::run_rule_set")
    adds = {c.bb for c in f.calls_to(ARFC)}
    stores = {i for i, j, s2 in field_writes(f, "last_run_at")}
    rules_param = [i for i in range(1, f.argc + 1) if "RuleId" in f.locals[i] and f.locals[i].startswith("&[")]
    ok = bool(adds) and bool(stores) and bool(rules_param)
    why = "anchors missing"
    if ok:
        ok = False
        why = "no plain loop over the `rules` parameter reaches add_rules_from_cached"
        for c in f.calls:
            if not (c.p.endswith("Iterator>::next") or c.p.endswith("Iterator::next")):
                continue
            at = f.origins(c.args[0])
            if not at or not all(a[0] == "param" and a[1] == rules_param[0] and not a[2] for a in at):
                continue
            sw = c.target
            if sw is None or f.term(sw)[0] != "switch":
                continue
            some = [tb for v, tb in f.term(sw)[2] if v == "1"]
            if not some or not any(b in ({some[0]} | f.reach_avoiding([some[0]], {c.bb})) for b in adds):
                continue
            from ..util import escapes
            r1 = {c.bb} if escapes(f, some[0], adds, c.bb) else set()
            r2 = {c.bb} if escapes(f, some[0], stores, c.bb) else set()
            if c.bb in r1:
                why = "an iteration can move on to the next rule without add_rules_from_cached"
            elif c.bb in r2:
                why = "an iteration can move on to the next rule without storing last_run_at"
            else:
                ok = True
    chk.judge(ok, R, f"{f.name}:every-rule", "every rule of the call gets its variants and its last_run_at", why + ": that rule does not run in this iteration (or re-runs over the same delta)", f.loc)
    g = prog.need_role(ARFC, lambda h: h.crate == "egglog_bridge" and len([c for c in h.calls if c.p.endswith("add_rule_from_cached_plan")]) >= 2,
                       "bridge function building several variants with add_rule_from_cached_plan")
    mid = [i for i in range(1, g.argc + 1) if g.locals[i].endswith("Timestamp")]
    plans = {c.bb for c in g.calls if c.p.endswith("add_rule_from_cached_plan")}

    def zero_guarded(b):
        for gd in guards(g, b):
            if gd.get("rel") == "Eq":
                oa, ob = g.origins(gd["a"]), g.origins(gd["b"])
                for x, y in ((oa, ob), (ob, oa)):
                    if any(a[0] == "param" and a[1] == mid[0] and not a[2] for a in x) and any((a[0] == "call" and "Timestamp" in a[1] and a[1].endswith("::new")) or a[0] == "const" for a in y):
                        return True
        return False
    ok2 = bool(mid) and bool(plans)
    why2 = "anchors missing"
    if ok2:
        ok2 = False
        why2 = "no range loop over the focus atoms found"
        for c in g.calls:
            if not (c.p.endswith("Iterator>::next") or c.p.endswith("Iterator::next")) or "Range" not in c.p:
                continue
            sw = c.target
            if sw is None or g.term(sw)[0] != "switch":
                continue
            some = [tb for v, tb in g.term(sw)[2] if v == "1"]
            if not some:
                continue
            body = {some[0]} | g.reach_avoiding([some[0]], {c.bb})
            if not (plans & body):
                continue
            skip = {b for b in body if zero_guarded(b)}
            # walk the body; edges taken under `mid_ts == 0` are allowed to leave the iteration
            from ..util import edge_relation

            def zero_edge(b, sx):
                er = edge_relation(g, b, sx)
                if not er or er.get("rel") != "Eq":
                    return False
                oa, ob = g.origins(er["a"]), g.origins(er["b"])
                for x, y in ((oa, ob), (ob, oa)):
                    if any(a[0] == "param" and a[1] == mid[0] and not a[2] for a in x) and any((a[0] == "call" and "Timestamp" in a[1] and a[1].endswith("::new")) or a[0] == "const" for a in y):
                        return True
                return False
            seen = set()
            stack = [some[0]]
            reached = False
            while stack:
                x = stack.pop()
                if x in seen or x in plans or x in skip:
                    continue
                seen.add(x)
                if x == c.bb:
                    reached = True
                    break
                for sx in g.succ[x]:
                    if not zero_edge(x, sx):
                        stack.append(sx)
            ok2 = not reached
            why2 = "a focus atom can be skipped on a path that is not guarded by mid_ts == 0"
    chk.judge(ok2, R, f"{g.name}:every-focus", "every atom gets its `new` variant (or the run is the first one)",
              why2 + ": matches whose only new row is in that atom are never produced", g.loc)


def run(chk, prog, tier):
    chk.explanation = EXPLANATION
    chk.assumptions = ["rustc nightly MIR construction", "R-FIXPOINT (C01) establishes that every pass of a rebuild loop calls inc_ts"]
    check_delta(chk, prog)
    check_lastrun(chk, prog)
    check_every_variant(chk, prog)
    check_restamp(chk, prog)
    check_tsadvance(chk, prog)
    from . import c16, c14
    c16.check_fast_subset(chk, prog)
    c14.check_siblings(chk, prog)
    # the Ge/Lt timestamp constraints of the delta decomposition must be evaluated as >= / < and reach the root subset
    from . import join_common
    join_common.check_constraint_eval(chk, prog)
    join_common.check_root_headers(chk, prog)
