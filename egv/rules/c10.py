"""C10 — schedules mean what they say.

Decides (structural):
  R-SCHED-EXITS  in run_schedule: saturate's loop stops only when the sub-run reports updated == false;
                 repeat is a 0..limit range loop whose only extra exit is can_stop == true; seq has no
                 early exit
  R-UNTIL-FIRST  run_rules consults :until (check_facts) before stepping and does not step when it holds
  R-REPORT-FLOW  every sub-report is unioned into the returned report; union ORs `updated`, ANDs
                 `can_stop`; singleton derives both from IterationReport::changed(), which comes from
                 merge_all's result
  R-COMBINED-LATE combined rulesets are expanded at run time (collect_rule_ids / collect_rules callers)
"""
from ..util import match_arms, arm_region, edge_relation, guards, variant_is
from .rebuild_common import natural_loops, loop_exits, leads_only_to_error

EXPLANATION = (
    "Static clause of C10 decided on MIR: each schedule combinator's loop stops exactly on the signal the statement names, "
    ":until is consulted before the step, every sub-run's report is accumulated, and the signals are wired to 'the database "
    "changed' (merge_all's result). Not decided: equality of databases under the algebraic laws."
)

SCHED = "egglog::ast::GenericSchedule"
RS = "egglog::EGraph::run_schedule"


def origin_field_of_call(f, operand, callee_suffix, field):
    at = f.origins(operand)
    return bool(at) and all(a[0] == "call" and a[1].endswith(callee_suffix) and a[3] and a[3][-1] == field for a in at)


def classify_exit(f, u, v):
    """'iter-end' | ('flag', field, truth) | 'other'"""
    r = edge_relation(f, u, v)
    if r is None:
        return "other"
    if "variant" in r:
        # discriminant of Option returned by Iterator::next
        at = f.origins(r["place"])
        if any(a[0] == "call" and a[1].endswith("Iterator>::next") for a in at) and variant_is(r, 0):
            return "iter-end"
        return "other"
    if "truth" in r and r["desc"][0] == "val":
        at = f.origins(r["desc"][1])
        if at and all(a[0] == "call" and a[1] == RS and a[3] for a in at):
            fields = {a[3][-1] for a in at}
            if len(fields) == 1:
                return ("flag", next(iter(fields)), r["truth"])
    return "other"


def check_sched_exits(chk, prog):
    R = chk.rule("R-SCHED-EXITS", "run_schedule: Saturate loop exits (normally) only on `updated == false` of the recursive result; Repeat is a "
                 "range loop 0..limit whose only other exit is `can_stop == true`; Sequence has no early exit; Run delegates to run_rules")
    f = prog.need_role(RS, lambda x: x.crate == "egglog" and any(c.p == x.name for c in x.calls) and bool(match_arms(prog, x, SCHED)),
                       "recursive egglog function matching on GenericSchedule")
    arms = match_arms(prog, f, SCHED)
    if not arms:
        chk.missing(R, "match on GenericSchedule in run_schedule")
        return
    sw, amap, _, _ = arms[0]
    loops = natural_loops(f)
    per_arm = {}
    for name, tb in amap.items():
        reg = arm_region(f, sw, tb)
        per_arm[name] = [(h, b) for (h, b) in loops if h in reg]
    for need in ("Run", "Repeat", "Saturate", "Sequence"):
        if need not in amap:
            chk.missing(R, f"{need} arm of run_schedule")
    # Saturate
    for h, body in per_arm.get("Saturate", []):
        if not any(c.p == RS and c.bb in body for c in f.calls):
            continue
        ex = [(u, v, classify_exit(f, u, v)) for (u, v) in loop_exits(f, body) if not leads_only_to_error(f, v)]
        ok = bool(ex) and all(k == ("flag", "updated", False) for _, _, k in ex)
        chk.judge(ok, R, f"{RS}:Saturate", "saturate repeats until a pass reports updated == false",
                  f"saturate loop exits on {[k for _, _, k in ex]} (expected only updated == false)", f.loc, exits=[str(k) for _, _, k in ex])
    if not any(any(c.p == RS and c.bb in b for c in f.calls) for _, b in per_arm.get("Saturate", [])):
        chk.missing(R, "loop around the recursive call in the Saturate arm")
    # Repeat
    found = False
    for h, body in per_arm.get("Repeat", []):
        if not any(c.p == RS and c.bb in body for c in f.calls):
            continue
        found = True
        ex = [(u, v, classify_exit(f, u, v)) for (u, v) in loop_exits(f, body) if not leads_only_to_error(f, v)]
        kinds = [k for _, _, k in ex]
        ok = "iter-end" in kinds and ("flag", "can_stop", True) in kinds and all(k in ("iter-end", ("flag", "can_stop", True)) for k in kinds)
        # range bound from the arm's limit field
        rng = False
        for i, j, s in f.assigns():
            rv = s[2]
            if rv[0] == "agg" and rv[2] == "core::ops::range::Range":
                lo, hi = rv[4]
                hat = f.origins(hi)
                if lo[0] == "k" and lo[1].startswith("0") and any(a[0] == "param" and "@Repeat" in a[2] for a in hat):
                    rng = True
        chk.judge(ok and rng, R, f"{RS}:Repeat", "repeat runs 0..limit iterations, stopping early only on can_stop",
                  f"repeat loop exits on {kinds}; range-from-limit={rng}", f.loc, exits=[str(k) for k in kinds])
    if not found:
        chk.missing(R, "loop around the recursive call in the Repeat arm")
    # Sequence
    found = False
    for h, body in per_arm.get("Sequence", []):
        if not any(c.p == RS and c.bb in body for c in f.calls):
            continue
        found = True
        ex = [(u, v, classify_exit(f, u, v)) for (u, v) in loop_exits(f, body) if not leads_only_to_error(f, v)]
        kinds = [k for _, _, k in ex]
        chk.judge(kinds == ["iter-end"], R, f"{RS}:Sequence", "seq runs every member (only exit: iterator exhausted)",
                  f"seq loop exits on {kinds}", f.loc)
    if not found:
        chk.missing(R, "loop around the recursive call in the Sequence arm")
    # Run
    if "Run" in amap:
        reg = arm_region(f, sw, amap["Run"])
        cs = [c for c in f.calls if c.bb in reg and c.p == "egglog::EGraph::run_rules"]
        chk.judge(len(cs) == 1 and cs[0].dest == [0, []], R, f"{RS}:Run", "Run arm returns run_rules(config) directly",
                  "Run arm does not return the result of run_rules", f.loc)


def check_until(chk, prog):
    R = chk.rule("R-UNTIL-FIRST", "run_rules: check_facts (the :until test) dominates step_rules, and step_rules is unreachable on the path where check_facts(..).is_ok()")
    f = prog.need("egglog::EGraph::run_rules")
    cf = f.calls_to("egglog::EGraph::check_facts")
    st = f.calls_to("egglog::EGraph::step_rules")
    if not cf or not st:
        chk.missing(R, "check_facts / step_rules calls in run_rules")
        return
    ok_order = all(not f.dominates(s.bb, c.bb) and s.bb in f.reach(c.bb) for c in cf for s in st)
    # the is_ok == true edge must not reach step_rules
    blocked = False
    for b in f.live:
        for s in f.succ[b]:
            r = edge_relation(f, b, s)
            if r and r.get("truth") is True and r["desc"][0] == "call" and r["desc"][1].p.endswith("Result::is_ok"):
                at = f.origins(r["desc"][1].args[0])
                if any(a[0] == "call" and a[1].endswith("check_facts") for a in at):
                    reach = {s} | f.reach(s)
                    blocked = not any(x.bb in reach for x in st)
    # the check is on the Some arm of `until`
    on_some = False
    for c in cf:
        for g in guards(f, c.bb):
            if variant_is(g, 1):
                on_some = True
    chk.judge(ok_order and blocked and on_some, R, "egglog::EGraph::run_rules:until",
              ":until facts are checked first and a successful check returns without stepping",
              f"until protocol broken: check-before-step={ok_order} ok-branch-skips-step={blocked} only-when-until-is-Some={on_some}", f.loc)


def check_report_flow(chk, prog):
    R = chk.rule("R-REPORT-FLOW", "sub-reports flow into RunReport::union of the returned accumulator; union: updated |=, can_stop &=; singleton: "
                 "updated = iteration.changed(), can_stop = !updated; changed() = rule_set_report.changed = merge_all()")
    f = prog.need_role(RS, lambda x: x.crate == "egglog" and any(c.p == x.name for c in x.calls) and bool(match_arms(prog, x, SCHED)),
                       "recursive egglog function matching on GenericSchedule")
    unions = f.calls_to("egglog_reports::RunReport::union")
    n = 0
    for c in f.calls:
        if c.p != RS:
            continue
        n += 1
        used = any(any(a[0] == "call" and a[2] == c.bb and a[1] == RS for a in f.origins(u.args[1])) for u in unions)
        chk.judge(used, R, f"{RS}:recursive-result#{n}", "recursive result is unioned into the accumulator",
                  "result of a sub-schedule is dropped (never passed to RunReport::union)", c.loc)
    chk.floor(R, n, 3, "recursive run_schedule calls")
    g = prog.need("egglog::EGraph::run_rules")
    st = g.calls_to("egglog::EGraph::step_rules")
    un = g.calls_to("egglog_reports::RunReport::union")
    used = bool(st) and all(any(any(a[0] == "call" and a[2] == s.bb for a in g.origins(u.args[1])) for u in un) for s in st)
    chk.judge(used, R, "egglog::EGraph::run_rules:step-result", "step_rules' report is unioned into the returned report",
              "step_rules' report is dropped", g.loc)
    # union
    u = prog.need("egglog_reports::RunReport::union")
    ops = {}
    for i, j, s in u.assigns():
        pj = [e for e in s[1][1] if not isinstance(e, str)]
        if len(pj) == 1 and pj[0][0] == "f" and pj[0][2] in ("updated", "can_stop") and s[1][0] == 1 and s[2][0] == "bin":
            srcs = {a for a in u.origins(s[2][2]) | u.origins(s[2][3]) if a[0] != "bin"}
            ops[pj[0][2]] = (s[2][1], srcs)
    for fld, want in (("updated", "BitOr"), ("can_stop", "BitAnd")):
        got = ops.get(fld)
        ok = got is not None and got[0] == want and got[1] == {("param", 1, (fld,)), ("param", 2, (fld,))}
        chk.judge(ok, R, f"egglog_reports::RunReport::union:{fld}", f"{fld} combined with {want} of both reports",
                  f"{fld} combined as {got and got[0]} over {got and sorted(map(str, got[1]))}", u.loc)
    # singleton
    s_ = prog.need("egglog_reports::RunReport::singleton")
    upd = can = None
    for i, j, s in s_.assigns():
        pj = [e for e in s[1][1] if not isinstance(e, str)]
        if len(pj) == 1 and pj[0][0] == "f" and pj[0][2] == "can_stop" and s[2][0] == "un" and s[2][1] == "Not":
            can = s_.origins(s[2][2])
        if len(pj) == 1 and pj[0][0] == "f" and pj[0][2] == "updated" and s[2][0] == "use":
            ua = s_.origins(s[2][1])
            if len(ua) == 1:
                a = next(iter(ua))
                upd = a[1] if a[0] == "call" else None
    ok = upd == "egglog_reports::IterationReport::changed" and can is not None and all(
        (a[0] == "call" and a[1] == "egglog_reports::IterationReport::changed") or (a[0] in ("agg", "call", "local") and a[-1] and a[-1][-1] == "updated") for a in can)
    chk.judge(ok, R, "egglog_reports::RunReport::singleton", "updated = iteration.changed(); can_stop = !updated",
              f"singleton wires updated from {upd} and can_stop from {can}", s_.loc)
    ch = prog.need("egglog_reports::IterationReport::changed")
    ret = ch.origins([0, []])
    chk.judge(ret == {("param", 1, ("rule_set_report", "changed"))}, R, "egglog_reports::IterationReport::changed",
              "changed() returns rule_set_report.changed", f"changed() returns {sorted(map(str, ret))}", ch.loc)
    rr = prog.need("egglog_core_relations::free_join::execute::<impl egglog_core_relations::free_join::Database>::run_rule_set") if prog.fn("egglog_core_relations::free_join::execute::<impl egglog_core_relations::free_join::Database>::run_rule_set") else None
    if rr is None:
        cands = prog.find("Database::run_rule_set")
        rr = cands[0] if cands else None
    if rr is None:
        chk.missing(R, "Database::run_rule_set")
    else:
        okc = False
        for i, j, s in rr.assigns():
            if s[2][0] == "agg" and s[2][2].endswith("RuleSetReport"):
                adt = prog.adts.get(s[2][2])
                names = [fd["name"] for fd in adt["variants"][0]["fields"]] if adt else []
                if "changed" in names:
                    at = rr.origins(s[2][4][names.index("changed")])
                    okc = bool(at) and all(a[0] == "call" and a[1].endswith("Database::merge_all") for a in at)
        chk.judge(okc, R, "Database::run_rule_set:changed", "RuleSetReport.changed is merge_all()'s result",
                  "RuleSetReport.changed does not come from merge_all()", rr.loc)


def check_combined(chk, prog):
    R = chk.rule("R-COMBINED-LATE", "Ruleset::Combined stores names; it is expanded only by the step functions (at run time), never when the combined ruleset is declared")
    adt = prog.adts.get("egglog::ast::Ruleset")
    if not adt:
        chk.missing(R, "enum egglog::ast::Ruleset")
        return
    comb = [v for v in adt["variants"] if v["name"] == "Combined"]
    ok = bool(comb) and "String" in comb[0]["fields"][0]["ty"]
    chk.judge(ok, R, "egglog::Ruleset::Combined", "Combined holds ruleset names (resolved when run)",
              "Combined no longer holds names", f"{adt['file']}:{adt['line']}")
    # functions that match on Ruleset and recurse into sub rulesets
    expanders = []
    for f in prog.lib_fns(["egglog"]):
        for (sw, amap, _, _) in match_arms(prog, f, "egglog::ast::Ruleset"):
            if "Combined" in amap or len(amap) >= 1:
                expanders.append(f)
                break
    names = sorted({(f.root or f.name) for f in expanders})
    # the declaration path must not expand
    decl = [f for f in prog.lib_fns(["egglog"]) if f.name.endswith("add_combined_ruleset")]
    bad = [f.name for f in decl if any(f.name == n or n.startswith(f.name + "::") for n in names)]
    chk.judge(bool(decl) and not bad and bool(names), R, "egglog::EGraph::add_combined_ruleset",
              f"declaration does not expand sub-rulesets; expanders: {names}", f"add_combined_ruleset expands sub-rulesets eagerly ({bad})",
              decl[0].loc if decl else None)


LOSSLESS_SINKS = ("alloc::vec::Vec::push", "alloc::vec::Vec::extend", "smallvec::SmallVec::push", "alloc::vec::Vec::extend_from_slice", "alloc::collections::vec_deque::VecDeque::push_back")


def check_combined_members(chk, prog):
    """the functions that expand a (combined) ruleset into the rules of one iteration must hand over EVERY rule of every member"""
    R = chk.rule("R-COMBINED-ALL-MEMBERS", "every function that expands a ruleset for a step (switches on Ruleset::{Rules, Combined} and recurses): in the Rules arm a plain loop over the "
                 "ruleset's own map adds every entry to the output through an operation that cannot drop an element (Vec::push / extend); in the Combined arm every named "
                 "sub-ruleset is expanded by the recursive call. A keyed insertion (entry().or_insert, insert into a map keyed by something other than the rule) can silently "
                 "drop a rule that shares the key with a rule of another member")
    from ..util import arm_region
    n = 0
    for f in prog.lib_fns(["egglog"]):
        for (sw, amap, _, place) in match_arms(prog, f, "egglog::ast::Ruleset"):
            if "Rules" not in amap or "Combined" not in amap:
                continue
            if not any(c.p == f.name for c in f.calls):
                continue  # not a recursive expander
            n += 1
            role = f.name
            for arm, sinks, what in (("Rules", None, "rule"), ("Combined", f.name, "sub-ruleset")):
                reg = arm_region(f, sw, amap[arm])
                loops = []
                for c in f.calls:
                    if c.bb in reg and (c.p.endswith("Iterator>::next") or c.p.endswith("Iterator::next")) and c.target is not None and f.term(c.target)[0] == "switch":
                        some = [tb for v, tb in f.term(c.target)[2] if v == "1"]
                        if some:
                            loops.append((c, some[0]))
                ok = len(loops) == 1
                why = f"{len(loops)} loops in the {arm} arm"
                if ok:
                    nx, some = loops[0]
                    if sinks is None:
                        good = {c.bb for c in f.calls if c.bb in reg and c.p in LOSSLESS_SINKS and len(c.args) > 1 and
                                any(a[0] == "call" and a[2] == nx.bb for a in _deep_item(f, c.args[1]))}
                        # set insertion of the item itself (dedup by rule id) is lossless for our purpose; a map keyed by something else is not
                        set_ins = {c.bb for c in f.calls if c.bb in reg and c.p.endswith(("IndexSet::insert", "HashSet::insert", "BTreeSet::insert")) and len(c.args) > 1 and
                                   any(a[0] == "call" and a[2] == nx.bb for a in _deep_item(f, c.args[1]))}
                        good |= set_ins
                        other = [c for c in f.calls if c.bb in reg and c.bb not in set_ins and c.p.rsplit("::", 1)[-1] in ("or_insert", "or_insert_with", "insert", "entry", "retain", "dedup") and
                                 not c.p.startswith("core::")]
                    else:
                        good = {c.bb for c in f.calls if c.bb in reg and c.p == sinks}
                        other = []
                    r = {some} | f.reach_avoiding([some], good) if some not in good else set()
                    # `?` error exits of the recursive call leave the loop: they are not "next iteration" paths
                    ok = bool(good) and nx.bb not in r and not other
                    why = ("an iteration can continue without adding the " + what) if good and nx.bb in r else \
                        (f"the {what}s are collected through a keyed / conditional insertion ({', '.join(sorted({c.p.rsplit('::', 2)[-2] + '::' + c.p.rsplit('::', 1)[-1] for c in other}))})" if other else
                         f"no lossless add of the iterated {what} found")
                chk.judge(ok, R, f"{role}:{arm}", f"every {what} of the member is handed on",
                          f"{why}: a rule of one member ruleset can be dropped from the iteration of a combined ruleset", f.loc)
    chk.floor(R, n, 2, "ruleset expanders (step_rules::collect_rule_ids, the scheduler's collect_rules)")


def _deep_item(f, operand, depth=0):
    """origins of a pushed value, looking through tuple / clone construction so that `(name.clone(), rule)` counts as the loop item"""
    out = set()
    for a in f.origins(operand):
        if a[0] == "agg" and depth < 3:
            st = f.stmt(a[4], a[5])
            for o in st[2][4]:
                out |= _deep_item(f, o, depth + 1)
        else:
            out.add(a)
    return out


def check_run_n(chk, prog):
    R = chk.rule("R-RUN-N", "the `(run R n)` command is parsed to Repeat(n, Run(R)) with n taken from the parsed unsigned literal (so R-SCHED-EXITS' Repeat semantics are (run R n)'s)")
    found = False
    ok = False
    loc = None
    for f in prog.lib_fns(["egglog"]):
        if not f.file.endswith("src/ast/parse.rs"):
            continue
        for i, j, s in f.assigns():
            rv = s[2]
            if rv[0] == "agg" and rv[2] == SCHED and rv[3] == "Repeat":
                adt = prog.adts[SCHED]
                v = next(x for x in adt["variants"] if x["name"] == "Repeat")
                # fields: span, limit, boxed schedule
                inner = f.origins(rv[4][2])
                inner_run = False
                for a in inner:
                    if a[0] == "agg" and a[2] == SCHED and a[3] == "Run":
                        inner_run = True
                    if a[0] == "call" and a[1].endswith("Box::new"):
                        pass
                if not inner_run:
                    # Box::new is transparent: look one level further
                    continue
                found = True
                loc = f"{f.file}:{s[3]}"
                la = f.origins(rv[4][1])
                ok = bool(la) and all(a[0] == "call" and a[1].endswith("expect_uint") for a in la)
    if not found:
        chk.missing(R, "Repeat(limit, Run(..)) built by the `run` command parser")
        return
    chk.judge(ok, R, "egglog::ast::parse:run-command", "(run R n) = Repeat(n, Run R) with n from the literal",
              "the iteration count of (run R n) does not come from the parsed literal", loc)


def run(chk, prog, tier):
    chk.explanation = EXPLANATION
    chk.assumptions = ["rustc nightly MIR construction", "(run R n) is desugared to (repeat n (run R)) by the parser (decided under C15's parser tables, not here)"]
    check_sched_exits(chk, prog)
    check_until(chk, prog)
    check_report_flow(chk, prog)
    check_combined(chk, prog)
    check_combined_members(chk, prog)
    check_run_n(chk, prog)
    from . import c05
    c05.check_change_reported(chk, prog)
