"""C15 — printing and re-parsing a program is the identity, at every stage.

Decides (table agreement, structural):
  R-KEYWORDS        option keywords and command heads emitted by the AST printers are accepted by the parser;
                    option keywords accepted by the parser are printed by some AST printer (or listed as sugar)
  R-FIELD-COVERAGE  the printer of every AST node reads every field of every variant (except spans and a frozen
                    list of not-printed-on-purpose fields): no field the parser fills is silently dropped
"""
import re

from ..facts import rv_operands

EXPLANATION = (
    "Static clause of C15 decided on MIR constants and places: the writer's and the reader's keyword tables agree, and no AST "
    "field is silently dropped by a printer (the drift-by-option failure). Not decided: round-trip of concrete literals and "
    "strings (escaping, floats), evaluation of extracted terms."
)

AST_TYPES = [
    ("egglog::ast::GenericCommand", None),
    ("egglog::ast::GenericNCommand", "egglog::ast::GenericNCommand::to_command"),
    ("egglog::ast::GenericSchedule", None),
    ("egglog::ast::GenericRunConfig", None),
    ("egglog_ast::generic_ast::GenericRule", None),
    ("egglog::ast::GenericRewrite", "egglog::ast::GenericRewrite::fmt_with_ruleset"),
    ("egglog::ast::Variant", None),
    ("egglog::ast::Schema", None),
    ("egglog_ast::generic_ast::GenericFact", None),
    ("egglog_ast::generic_ast::GenericAction", None),
    ("egglog_ast::generic_ast::GenericExpr", None),
    ("egglog_ast::generic_ast::Literal", None),
]

# fields deliberately not printed (one reason each)
NOT_PRINTED = {
    ("egglog::ast::GenericCommand", "Sort", "unionable"):
        "no surface syntax: the parser always builds `true`, only the desugaring of `relation` builds `false`; it only changes whether an ill-typed union is rejected",
}

# parser-only option keywords (sugar that desugars away before printing, or options of non-AST surfaces)
SUGAR = {
    ":variant": "error-message text of the datatype* parser, not an option",
}


def str_consts(f):
    out = []
    for c in f.consts():
        if c.startswith('"') or c.startswith('b"') or c.startswith('const "') or c.startswith('const b"'):
            out.append(c)
    return out


def printer_fns(prog, t, override):
    if override:
        fs = prog.fn_multi.get(override, [])
    else:
        fs = prog.fn_multi.get(f"<{t} as core::fmt::Display>::fmt", [])
    return fs


def check_keywords(chk, prog):
    R = chk.rule("R-KEYWORDS", "every option keyword (`:word`) and every command head (`(word`) emitted by a printer of an AST type is a string the parser compares against; "
                 "every option keyword the parser accepts is emitted by some AST printer or is listed as sugar")
    P_opt, P_words = set(), set()
    n_parse = 0
    for f in prog.lib_fns(["egglog"]):
        root = f.root or f.name
        if not (root.startswith("egglog::ast::parse::") or f.file.endswith("src/ast/parse.rs")):
            continue
        n_parse += 1
        for c in str_consts(f):
            for m in re.findall(r":[a-z][a-z0-9-]+", c):
                P_opt.add(m)
            body = c.split('"', 1)[1].rsplit('"', 1)[0] if '"' in c else c
            if re.fullmatch(r"[a-z][a-z0-9*-]*", body):
                P_words.add(body)
    chk.floor(R, n_parse, 20, "parser functions")
    chk.floor(R, len(P_opt), 15, "option keywords known to the parser")
    D_opt, D_heads = {}, {}
    for t, override in AST_TYPES:
        for f in printer_fns(prog, t, override):
            for g in prog.region(f):
                for c in str_consts(g):
                    for m in re.findall(r":[a-z][a-z0-9-]+", c):
                        D_opt.setdefault(m, t)
                    for m in re.findall(r"\(([a-z][a-z0-9*-]*)[ )\\]", c):
                        D_heads.setdefault(m, t)
    # helpers printing parts of commands in egglog_ast
    for f in prog.lib_fns(["egglog_ast"]):
        if f.file.endswith("generic_ast_helpers.rs"):
            for c in str_consts(f):
                for m in re.findall(r":[a-z][a-z0-9-]+", c):
                    D_opt.setdefault(m, f.root or f.name)
    chk.floor(R, len(D_opt), 15, "option keywords emitted by AST printers")
    for k, t in sorted(D_opt.items()):
        chk.judge(k in P_opt, R, f"printed-option:{k}", f"printer of {t.rsplit('::', 1)[-1]} emits {k}; the parser knows it",
                  f"printer of {t} emits option {k} which the parser never tests: printed programs do not re-parse", None)
    for k in sorted(P_opt):
        if k in D_opt:
            chk.ok(R, f"parsed-option:{k}", "accepted by the parser and printed by an AST printer")
        elif k in SUGAR:
            chk.ok(R, f"parsed-option:{k}", f"parser-only: {SUGAR[k]}")
        else:
            chk.bad(R, f"parsed-option:{k}", f"option {k} is accepted by the parser but no AST printer emits it: it is lost when the program is printed", None)
    for h, t in sorted(D_heads.items()):
        chk.judge(h in P_words, R, f"printed-head:{h}", f"head `({h}` printed by {t.rsplit('::', 1)[-1]} is dispatched on by the parser",
                  f"printer of {t} emits `({h} ...` but the parser has no such head", None)


def _reads(prog, f):
    reads = set()

    def scan(pl):
        var = None
        for e in pl[1]:
            if isinstance(e, str):
                continue
            if e[0] == "d":
                var = e[1]
            elif e[0] == "f":
                reads.add((var, e[2]))
                return

    for g in prog.region(f):
        for i, j, s in g.assigns():
            scan(s[1])
            rv = s[2]
            if rv[0] in ("ref", "rawptr"):
                scan(rv[2])
            elif rv[0] == "disc":
                scan(rv[1])
            for o in rv_operands(rv):
                if o[0] in ("c", "m"):
                    scan(o[1])
        for c in g.calls:
            for a in c.args:
                if a[0] in ("c", "m"):
                    scan(a[1])
        for b in g.live:
            t = g.term(b)
            if t[0] == "switch" and t[1][0] in ("c", "m"):
                scan(t[1][1])
    return reads


def check_field_coverage(chk, prog):
    R = chk.rule("R-FIELD-COVERAGE", "the printer (Display::fmt, or the listed printing function) of each AST type reads every field of every variant, except Span fields "
                 "and the frozen not-printed-on-purpose list")
    n = 0
    for t, override in AST_TYPES:
        ad = prog.adts.get(t)
        fs = printer_fns(prog, t, override)
        if not ad or not fs:
            chk.missing(R, f"AST type / printer for {t}")
            continue
        reads = _reads(prog, fs[0])
        for v in ad["variants"]:
            for fd in v["fields"]:
                if "Span" in fd["ty"].split("<")[0] or fd["ty"].endswith("span::Span"):
                    continue
                n += 1
                key = (v["name"] if ad["kind"] == "enum" else None, fd["name"])
                vn = v["name"] if ad["kind"] == "enum" else t.rsplit("::", 1)[1]
                k = f"{t}:{vn}.{fd['name']}"
                if (t, v["name"], fd["name"]) in NOT_PRINTED:
                    chk.ok(R, k, "not printed on purpose: " + NOT_PRINTED[(t, v["name"], fd["name"])])
                    continue
                chk.judge(key in reads, R, k, "field is read by the printer",
                          f"the printer of {t} never reads field `{fd['name']}` of {vn}: whatever the parser stored there is dropped when the program is printed",
                          f"{fs[0].file}:{fs[0].line}")
    chk.floor(R, n, 120, "AST fields checked")


def check_numeric_lexing(chk, prog):
    """`Display for Literal::Float` prints `n.to_string()` and appends `.0` only when that text parses as an i64; every other text it emits
    (exponent-free digit runs >= 2^63, `1e300` printed in full, ...) relies on the lexer trying i64 first and then falling through to f64."""
    from ..util import guards
    R = chk.rule("R-NUMERIC-LEXING", "reader and writer classify numeric tokens with the same two tests in the same order: (a) in the lexer function that calls both str::parse::<i64> and "
                 "str::parse::<f64> on an atom token, every path from the failure of the i64 parse to a return passes the f64 parse (no branch rejects or re-classifies the token in "
                 "between, except the named constants NaN / inf / -inf which build a Float literal); (b) the Float arm of `Display for Literal` appends \".0\" exactly under "
                 "`to_string().parse::<i64>().is_ok()` and prints the bare text otherwise")
    lex = None
    for f in prog.lib_fns(["egglog"]):
        ps = [c for c in f.calls if c.p == "str::parse" or c.p.endswith("::str::parse")]
        tys = {tuple(c.ga) for c in ps}
        if ("i64",) in tys and ("f64",) in tys and "ast::parse" in f.name:
            lex = f
    if lex is None:
        chk.missing(R, "lexer function calling str::parse::<i64> and str::parse::<f64>")
        return
    pi = [c for c in lex.calls if c.p.endswith("str::parse") and tuple(c.ga) == ("i64",)][0]
    pf = {c.bb for c in lex.calls if c.p.endswith("str::parse") and tuple(c.ga) == ("f64",)}
    # blocks that build a Float literal directly (the named constants)
    named = set()
    for i, j, s2 in lex.assigns():
        rv = s2[2]
        if rv[0] == "agg" and rv[1] == "adt" and str(rv[2]).endswith("Literal") and rv[3] == "Float":
            named.add(i)
    # Err arm of the i64 parse result
    start = []
    for b in sorted(lex.live):
        t = lex.term(b)
        if t[0] == "switch":
            d = lex.describe_operand(t[1])
            if d and d[0] == "disc" and d[1][0] == pi.dest[0]:
                start += [tb for v, tb in t[2] if v == "1"]
                if not start and t[3] is not None:
                    start.append(t[3])
    bad = None
    seen = set()
    stack = list(start)
    while stack:
        x = stack.pop()
        if x in seen or x in pf or x in named:
            continue
        seen.add(x)
        if lex.term(x)[0] == "ret":
            bad = x
            break
        if x == pi.bb:
            continue
        stack.extend(lex.succ[x])
    chk.judge(bool(start) and bool(pf) and bad is None, R, f"{lex.name}:i64-then-f64", "a token that is not an i64 always reaches the f64 test",
              "the lexer can return (reject or re-classify the token) between the failed i64 parse and the f64 parse: a float the printer writes without a decimal point or exponent "
              "(any whole number of magnitude >= 2^63) no longer reads back", lex.loc)
    # (b) printer
    disp = None
    for n, g in prog.fns.items():
        if n.endswith("generic_ast::Literal as core::fmt::Display>::fmt"):
            disp = g
    if disp is None:
        chk.missing(R, "Display for Literal")
        return
    pis = [c for c in disp.calls if c.p.endswith("str::parse") and tuple(c.ga) == ("i64",)]
    ok = False
    if pis:
        c0 = pis[0]
        src = disp.origins(c0.args[0])
        from_tostring = any(a[0] == "call" and a[1].endswith("ToString>::to_string") for a in src)
        writes = [w for w in disp.calls if w.p.endswith("Formatter::write_fmt")]
        with_dot, bare = [], []
        for w in writes:
            for g in guards(disp, w.bb):
                if "variant" in g and g["place"][0] == c0.dest[0]:
                    consts = " ".join(str(k) for k in disp.consts())
                    (with_dot if g["variant"] == ["0"] else bare).append(w)
        ok = from_tostring and len(with_dot) == 1 and len(bare) == 1
    chk.judge(ok, R, "Display for Literal:Float", "`.0` appended exactly when the printed text would otherwise read back as an i64",
              "the Float printer no longer decides on `text.parse::<i64>()`: either a whole-number float prints as an integer token, or the decision differs from the lexer's", disp.loc)


def run(chk, prog, tier):
    chk.explanation = EXPLANATION
    chk.assumptions = ["string constants of printers and parser are visible in MIR (format templates are byte strings on this nightly)",
                       "a field that is read is assumed to be printed faithfully (escaping/format of literals is not decided)"]
    check_keywords(chk, prog)
    check_field_coverage(chk, prog)
    check_numeric_lexing(chk, prog)
