"""C14 — containers of e-classes stay canonical and keep rules firing.

Decides (structural):
  R-CONTAINER-ORDER     in the rebuild loop: rebuild_containers -> apply_rebuild -> refresh_rows_for_values(dirty ids
                        of the container pass), same next_ts for both, inc_ts afterwards
  R-DIRTY-CLOSURE       ContainerValues::rebuild_all always closes the dirty-id set over containing containers
  R-CONTAINER-SIBLINGS  the three container rebuild variants perform the same obligations (rebuild own id,
                        rebuild contents, merge on collision + index maintenance, dirty-id under an
                        id-unchanged test, change noted)
  R-REBUILD-CONTENTS    every ContainerValue impl rebuilds its contents through the ValueRebuilder and reports
                        a computed (non-constant) change flag
  R-MIN                 (C01) the container merge closure picks min(a,b)
"""
from ..util import guards, may_guards, edge_relation, fmt_atoms
from . import min_common as mc
from .rebuild_common import natural_loops, RebuildModel

EXPLANATION = (
    "Static clause of C14 decided on MIR: the ordering argument in the rebuild loop (containers first, then tables, then a refresh of "
    "rows mentioning same-id dirty containers, all at one timestamp), the dirty-id protocol in all three container-rebuild "
    "variants, the transitive closure of dirty ids, and that every container sort really rebuilds its contents and reports a "
    "computed change flag. Not decided: equality of containers modulo unions on data."
)

CE = "egglog_core_relations::containers::ContainerEnv"
CV = "egglog_core_relations::containers::ContainerValues"
SUM = "egglog_core_relations::containers::ContainerRebuildSummary"
VR = "egglog_core_relations::table_spec::ValueRebuilder::"


def check_order(chk, prog):
    R = chk.rule("R-CONTAINER-ORDER", "native rebuild loop: Database::rebuild_containers dominates apply_rebuild dominates refresh_rows_for_values; the refresh gets the dirty ids of that "
                 "container pass; apply_rebuild and the refresh get the same next_ts, read after the container pass with no inc_ts before them; inc_ts follows")
    f = prog.need_role("egglog_bridge::EGraph::rebuild", lambda g: g.crate == "egglog_bridge" and bool(g.calls_to("Database::apply_rebuild")),
                       "bridge function calling Database::apply_rebuild")
    rc = f.calls_to("Database::rebuild_containers")
    ar = f.calls_to("Database::apply_rebuild")
    rr = f.calls_to("Database::refresh_rows_for_values")
    inc = f.calls_to("egglog_bridge::EGraph::inc_ts")
    if not (rc and ar and rr):
        chk.missing(R, "rebuild_containers / apply_rebuild / refresh_rows_for_values in EGraph::rebuild")
        return
    rc, ar, rr = rc[0], ar[0], rr[0]
    order = f.dominates(rc.bb, ar.bb) and f.dominates(ar.bb, rr.bb)
    chk.judge(order, R, "egglog_bridge::EGraph::rebuild:order", "containers are rebuilt before tables, refresh comes last",
              "container rebuild no longer precedes table rebuild (a :no-merge conflict or a stale container key can appear)", rc.loc)
    da = f.origins(rr.args[2])
    dirty_ok = False
    for a in da:
        if a[0] == "call" and a[1].endswith("Iterator::collect"):
            # follow the iterator chain back to dirty_ids()
            work = [a]
            seen = set()
            while work:
                x = work.pop()
                if x in seen:
                    continue
                seen.add(x)
                c = f.call_at(x[2])
                if c is None or not c.args:
                    continue
                for y in f.origins(c.args[0]):
                    if y[0] == "call" and y[1] == SUM + "::dirty_ids":
                        dc = f.call_at(y[2])
                        if any(z[0] == "call" and z[2] == rc.bb for z in f.origins(dc.args[0])):
                            dirty_ok = True
                    elif y[0] == "call":
                        work.append(y)
        if a[0] == "call" and a[1] == SUM + "::dirty_ids":
            dirty_ok = True
    chk.judge(dirty_ok, R, "egglog_bridge::EGraph::rebuild:dirty-ids", "refresh_rows_for_values receives container_rebuild.dirty_ids()",
              "the refresh does not receive the dirty ids of this pass's container rebuild", rr.loc)
    ta, tb = f.origins(ar.args[3]), f.origins(rr.args[3])
    same = ta == tb and bool(ta) and all(a[0] == "call" and a[1].endswith("Timestamp::to_value") for a in ta)
    no_inc = True
    if same:
        for a in ta:
            tv = f.call_at(a[2])
            for c in inc:
                fwd = f.reach_avoiding([tv.bb], {tv.bb})
                if c.bb in fwd and (ar.bb in f.reach_avoiding([c.bb], {tv.bb}) or rr.bb in f.reach_avoiding([c.bb], {tv.bb})):
                    no_inc = False
    after = any(f.dominates(rr.bb, c.bb) for c in inc)
    chk.judge(same and no_inc and after, R, "egglog_bridge::EGraph::rebuild:one-timestamp", "both passes stamp rows with the same next_ts; inc_ts afterwards",
              f"timestamp protocol of the rebuild pass broken (same next_ts: {same}, no inc_ts before use: {no_inc}, inc_ts after: {after})", ar.loc)


def check_dirty_closure(chk, prog):
    R = chk.rule("R-DIRTY-CLOSURE", "ContainerValues::rebuild_all calls expand_dirty_id_closure on the summary it returns, on every path that rebuilt anything")
    f = prog.need(CV + "::rebuild_all")
    ex = f.calls_to(CV + "::expand_dirty_id_closure")
    work = [c for c in f.calls if c.d.endswith("DynamicContainerEnv::apply_rebuild") or c.p.endswith("parallel::map_dense_id_map_mut")]
    region_work = []
    for g in prog.region(f):
        for c in g.calls:
            if c.d.endswith("DynamicContainerEnv::apply_rebuild"):
                region_work.append(c)
    ok = bool(ex) and bool(region_work)
    if ok:
        starts = [c.target for c in work if c.target is not None]
        path = RebuildModel._path_to_ret(f, starts, {c.bb for c in ex}, set())
        ok = path is None
        # the expanded summary is the returned one
        ret = f.origins([0, []])
        ea = f.origins(ex[0].args[1])
        ok = ok and bool(ret & ea or any(a in ret for a in ea))
    chk.judge(ok, R, CV + "::rebuild_all", "dirty ids are closed over containing containers before the summary is returned",
              "rebuild_all can return a summary whose dirty-id set was not closed over parent containers (nested containers are not refreshed)", f.loc)
    g = prog.need(CV + "::expand_dirty_id_closure")
    loops = natural_loops(g)
    calls = [c for c in g.calls if c.d.endswith("DynamicContainerEnv::extend_containers_containing")]
    note = g.calls_to(SUM + "::note_dirty_id")
    chk.judge(bool(loops) and bool(calls) and bool(note), R, CV + "::expand_dirty_id_closure", "iterates extend_containers_containing to a fixpoint, noting each new id",
              "expand_dirty_id_closure no longer iterates over containing containers", g.loc)
    # coverage inside the closure computation: every container environment is asked, and every id that is new to `seen` is both
    # recorded as dirty and put on the next frontier
    ok_env = ok_new = False
    for c in g.calls:
        if not (c.p.endswith("Iterator>::next") or c.p.endswith("Iterator::next")) or c.target is None or g.term(c.target)[0] != "switch":
            continue
        some = [tb for v, tb in g.term(c.target)[2] if v == "1"]
        if not some:
            continue
        body = {some[0]} | g.reach_avoiding([some[0]], {c.bb})
        ecalls = {x.bb for x in calls if x.bb in body}
        if ecalls and not any(x.bb in body for x in note):
            at = g.origins(c.args[0])
            plain = bool(at) and all(a[0] == "call" and a[1].endswith("::iter") for a in at)
            seen_, st_ = set(), [some[0]]
            esc = False
            while st_:
                x = st_.pop()
                if x in seen_ or x in ecalls:
                    continue
                seen_.add(x)
                if x == c.bb:
                    esc = True
                    break
                st_.extend(g.succ[x])
            ok_env = plain and not esc
        nb = {x.bb for x in note if x.bb in body}
        if nb:
            fins = {x.bb for x in g.calls if x.bb in body and x.p.endswith("IndexSet::insert") and x.bb not in
                    {y.bb for y in g.calls if y.p.endswith("IndexSet::insert") and any(z.bb == y.bb for z in g.calls if False)}}
            # the `seen.insert(value)` test and the frontier insertion are both IndexSet::insert; the one whose result is branched on is the test
            tests = [x for x in g.calls if x.bb in body and x.p.endswith("IndexSet::insert") and g.term(x.target)[0] == "switch"]
            adds = {x.bb for x in g.calls if x.bb in body and x.p.endswith("IndexSet::insert")} - {x.bb for x in tests}
            if tests and adds:
                t = tests[0]
                newarm = [tb for v, tb in g.term(t.target)[2] if v != "0"] or [g.term(t.target)[3]]
                zero = [tb for v, tb in g.term(t.target)[2] if v == "0"]
                true_succ = g.term(t.target)[3] if zero else newarm[0]
                def escapes(start, need):
                    seen_, st_ = set(), [start]
                    while st_:
                        x = st_.pop()
                        if x in seen_ or x in need:
                            continue
                        seen_.add(x)
                        if x == c.bb:
                            return True
                        st_.extend(g.succ[x])
                    return False
                ok_new = not escapes(true_succ, nb) and not escapes(true_succ, adds)
    chk.judge(ok_env, R, CV + "::expand_dirty_id_closure:every-env", "every container environment contributes the containers that mention a frontier id",
              "the dirty-id closure does not ask every container environment (an adapter or a skipped iteration): parents of another container type are not refreshed", g.loc)
    chk.judge(ok_new, R, CV + "::expand_dirty_id_closure:new-id", "an id new to `seen` is recorded as dirty and joins the next frontier",
              "an id found by the closure for the first time is not both recorded as dirty and put on the next frontier: the closure stops one level short on some path", g.loc)


def _variant_regions(prog):
    out = {}
    for name in ("apply_rebuild_incremental", "apply_rebuild_nonincremental", "apply_rebuild_nonincremental_parallel"):
        f = prog.need(f"{CE}::{name}")
        reg = prog.region(f)
        # helpers reached directly (same type)
        extra = []
        for g in list(reg):
            for c in g.calls:
                if c.p in (CE + "::reinsert_incremental", CE + "::insert_owned"):
                    h = prog.fns.get(c.p)
                    if h is not None and h not in reg and h not in extra:
                        extra.append(h)
                        for c2 in h.calls:
                            if c2.p == CE + "::insert_owned":
                                h2 = prog.fns.get(c2.p)
                                if h2 is not None and h2 not in extra:
                                    extra.append(h2)
        full = reg + [x for h in extra for x in prog.region(h)]
        # the serial non-incremental variant tail-calls the parallel one: do not merge regions
        out[name] = (f, full)
    return out


def check_siblings(chk, prog):
    R = chk.rule("R-CONTAINER-SIBLINGS", "apply_rebuild_incremental / apply_rebuild_nonincremental / apply_rebuild_nonincremental_parallel each: (a) rebuild the container's own id "
                 "(ValueRebuilder::rebuild_val), (b) call ContainerValue::rebuild_contents, (c) on a collision call the merge closure and maintain to_container and val_index "
                 "under `result != old`, (d) record a dirty id only under an id-unchanged (equality) test, never unconditionally, (e) note a change")
    vs = _variant_regions(prog)
    for name, (f, reg) in vs.items():
        calls = [(g, c) for g in reg for c in g.calls]
        a = any(c.d == VR + "rebuild_val" or c.p == VR + "rebuild_val" for g, c in calls)
        b = any(c.d.endswith("ContainerValue::rebuild_contents") for g, c in calls)
        # (c) merge closure call: Fn*::call on a dyn MergeFn with (state, old, new)
        merge = [(g, c) for g, c in calls if c.d.startswith("core::ops::function::Fn") and len(c.ga) > 1 and "ExecutionState" in c.ga[1] and c.ga[1].count("Value") >= 2]
        idx = False
        for g, c in merge:
            # to_container / val_index maintenance guarded by result != old
            for gg, cc in calls:
                if gg is not g:
                    continue
                nm = cc.p.rsplit("::", 1)[-1]
                if nm in ("remove", "insert", "swap_remove") and cc.args:
                    at = gg.origins(cc.args[0])
                    if any(x[0] == "param" and ("to_container" in x[2] or "val_index" in x[2]) for x in at) or \
                       any(x[0] == "call" and ("val_index" in str(x) or "entry" in x[1]) for x in at):
                        for gd in guards(gg, cc.bb):
                            if gd.get("rel") == "Ne":
                                srcs = gg.origins(gd["a"]) | gg.origins(gd["b"])
                                if any(x[0] == "call" and x[2] == c.bb for x in srcs):
                                    idx = True
        # (d) dirty-id sites
        dsites = [(g, c) for g, c in calls if c.p == SUM + "::note_dirty_id" or (c.p.endswith("SegQueue::push") and any("dirty" in (g.varnames.get(x[1], "") or g.upvars.get(tuple(x[2][:1]), "")) for x in g.origins(c.args[0]) if x[0] in ("local", "param")))]
        dsites = [(g, c) for g, c in dsites if not _is_drain_loop(g, c)]
        d_ok = bool(dsites)
        d_why = "no dirty-id recording site"
        for g, c in dsites:
            eqs = 0
            for gd in guards(g, c.bb):
                if gd.get("rel") == "Eq":
                    eqs += 1
                elif gd.get("truth") is True and gd["desc"][0] in ("val", "call"):
                    # a bool flag (stable_id / container_changed): accept flags computed from an equality
                    eqs += _flag_from_eq(prog, g, gd)
            if eqs == 0:
                d_ok = False
                d_why = f"dirty id recorded at line {c.line} without any id-unchanged (equality) test"
        e = any(c.p == SUM + "::note_change" for g, c in calls)
        key = f"{CE}::{name}"
        # (g) WHICH id is recorded: the re-inserted container's own id (the one handed to the insertion), and when the insertion can
        # return another id (collision), under an equality between the insertion's result and that id
        for g, c in dsites:
            P = g.origins(c.args[1]) if len(c.args) > 1 else set()
            incoming = set()
            results = []
            for cc in g.calls:
                if cc.p == CE + "::insert_owned" and len(cc.args) > 2:
                    incoming |= g.origins(cc.args[2])
                    results.append(cc)
                elif cc.d.startswith("core::ops::function::Fn") and len(cc.ga) > 1 and "ExecutionState" in cc.ga[1] and cc.ga[1].count("Value") >= 2 and len(cc.args) > 1:
                    tup = [a for a in g.origins(cc.args[1]) if a[0] == "agg"]
                    for a in tup:
                        st = g.stmt(a[4], a[5])
                        if len(st[2][4]) >= 3:
                            incoming |= g.origins(st[2][4][2])
                    results.append(cc)
                elif cc.p.endswith("SharedValue::new") and cc.args:
                    incoming |= g.origins(cc.args[0])
            if not incoming:
                continue
            E = set(incoming)
            gs = [gd for gd in guards(g, c.bb) if gd.get("rel") == "Eq"]
            changed_ = True
            while changed_:
                changed_ = False
                for gd in gs:
                    oa, ob = g.origins(gd["a"]), g.origins(gd["b"])
                    if oa & E and not ob <= E:
                        E |= ob
                        changed_ = True
                    if ob & E and not oa <= E:
                        E |= oa
                        changed_ = True
            ok_id = bool(P & E)
            # a result that is compared at all must be compared with the incoming id
            res_atoms = {("call", r.p, r.bb, ()) for r in results}
            ok_res = True
            for gd in gs:
                oa, ob = g.origins(gd["a"]), g.origins(gd["b"])
                for x, y in ((oa, ob), (ob, oa)):
                    if x & res_atoms and not (y & (incoming | _eq_class(g, gs, incoming, res_atoms))):
                        ok_res = False
            chk.judge(ok_id and ok_res, R, key + f":dirty-id-is-own-id{'@closure' if g.kind == 'closure' else ''}", "the id recorded as dirty is the re-inserted container's own id",
                      "the dirty id recorded after a re-insertion is not the re-inserted container's own id, or the guarding equality compares the insertion's result with another id "
                      "(e.g. the resident container's): when the rebuilt container keeps its id and wins the merge nothing is refreshed, and semi-naive misses the rows that became matchable",
                      c.loc)
        # (f) every re-insertion point of a rebuilt container is followed, within the same loop iteration, by a
        # dirty-id decision (a conditional dirty-id site): the occupied AND the vacant arm
        own = prog.region(f) + [h for h in reg if h.name == CE + "::reinsert_incremental" or (h.root or "") == CE + "::reinsert_incremental"]
        points = []
        for g in own:
            for c in g.calls:
                if c.p == CE + "::insert_owned" or c.p.endswith("::insert_in_slot") or \
                   (c.d.startswith("core::ops::function::Fn") and len(c.ga) > 1 and "ExecutionState" in c.ga[1] and c.ga[1].count("Value") >= 2):
                    points.append((g, c))
        dset = {(g.name, c.bb) for g, c in dsites}
        miss = []
        for g, c in points:
            loops = [(h_, b_) for (h_, b_) in natural_loops(g) if c.bb in b_]
            hdr, body = (min(loops, key=lambda x: len(x[1])) if loops else (None, set(g.live)))
            seen = set()
            stack = [c.bb]
            found = False
            while stack:
                x = stack.pop()
                if x in seen:
                    continue
                seen.add(x)
                if (g.name, x) in dset and x != c.bb:
                    found = True
                    break
                for sx in g.succ[x]:
                    if sx in body and sx != hdr:
                        stack.append(sx)
            if not found and (g.name, c.bb) not in dset:
                miss.append(f"{c.p.rsplit('::', 1)[-1]} at line {c.line}")
        chk.judge(bool(points) and not miss, R, key + ":dirty-after-reinsert", f"{len(points)} re-insertion point(s), each followed by a dirty-id decision in the same iteration",
                  f"a rebuilt container is re-inserted without a dirty-id decision on that path ({miss}): a same-id container whose contents changed is never refreshed, "
                  "so semi-naive misses the rows that became matchable", f.loc)
        chk.judge(a, R, key + ":own-id", "rebuilds the container's own id", "variant no longer maps the container's own id through the rebuilder", f.loc)
        chk.judge(b, R, key + ":contents", "rebuilds the container's contents", "variant no longer calls rebuild_contents", f.loc)
        chk.judge(bool(merge) and idx, R, key + ":collision", "merges on collision and re-points to_container / val_index when the id changed",
                  f"collision handling incomplete (merge closure called: {bool(merge)}, index maintenance under result != old: {idx})", f.loc)
        chk.judge(d_ok, R, key + ":dirty-id", f"{len(dsites)} dirty-id site(s), each under an id-unchanged test", d_why, f.loc)
        chk.judge(e, R, key + ":note-change", "notes a change", "variant never reports a change", f.loc)


def _eq_class(g, gs, incoming, exclude):
    """ids known equal to the incoming id through must-guard equalities that do not involve the insertion's result"""
    E = set(incoming)
    grew = True
    while grew:
        grew = False
        for gd in gs:
            oa, ob = g.origins(gd["a"]), g.origins(gd["b"])
            if (oa & exclude) or (ob & exclude):
                continue
            if oa & E and not ob <= E:
                E |= ob
                grew = True
            if ob & E and not oa <= E:
                E |= oa
                grew = True
    return E


def _is_drain_loop(g, c):
    """`while let Some(v) = dirty_ids.pop() { summary.note_dirty_id(v) }` merely transfers recorded ids"""
    if c.p != SUM + "::note_dirty_id":
        return False
    at = g.origins(c.args[1]) if len(c.args) > 1 else set()
    return any(a[0] == "call" and a[1].endswith("SegQueue::pop") for a in at)


def _flag_from_eq(prog, g, gd):
    d = gd["desc"]
    if d[0] == "call":
        return 1 if d[1].p.endswith(("PartialEq::eq", "PartialEq>::eq")) else 0
    at = g.origins(d[1])
    n = 0
    for a in at:
        if a[0] == "call" and a[1].endswith(("PartialEq::eq", "PartialEq>::eq")):
            n += 1
        elif a[0] == "bin" and a[1] == "Eq":
            n += 1
        elif a[0] in ("call", "param", "local") and a[-1]:
            # field of a tuple popped from the reinsert queue: (container, val, stable_id)
            n += 1 if _tuple_flag_is_eq(prog, g, a) else 0
    return 1 if n else 0


def _tuple_flag_is_eq(prog, g, atom):
    """the third component of the queued (container, val, new == old) tuples"""
    root = prog.fns.get(g.root) if g.kind == "closure" else g
    for h in prog.region(root) if root else [g]:
        for i, j, s in h.assigns():
            if s[2][0] == "agg" and s[2][1] == "tuple" and len(s[2][4]) == 3:
                fa = h.origins(s[2][4][2])
                if any(x[0] == "call" and x[1].endswith(("PartialEq::eq", "PartialEq>::eq")) for x in fa) or any(x[0] == "bin" and x[1] == "Eq" for x in fa):
                    return True
    return False


def _indexing_helper_param(prog, g):
    """if every normal path of g runs a `for e in <container>.iter() { val_index.entry(e).or_default().insert(P) }` loop with P one of
    g's own parameters, return the 0-based argument position of P; else None"""
    cache = prog.__dict__.setdefault("_c14_helper", {})
    if g.name in cache:
        return cache[g.name]
    res = None
    from .join_common import cross_origins, atom_path
    for c in g.calls:
        if not (c.p.endswith("Iterator>::next") or c.p.endswith("Iterator::next")):
            continue
        if not any(a[0] == "call" and a[1].endswith("ContainerValue::iter") for a in g.origins(c.args[0])):
            continue
        sw = c.target
        if sw is None or g.term(sw)[0] != "switch":
            continue
        some = [tb for v, tb in g.term(sw)[2] if v == "1"]
        if not some:
            continue
        for i in g.calls:
            if not (i.p.endswith("IndexSet::insert") or i.p.endswith("IndexSet::insert_full")):
                continue
            pv = [a for a in g.origins(i.args[1]) if a[0] == "param" and not a[2]]
            if not pv:
                continue
            from ..util import escapes
            if escapes(g, some[0], {i.bb}, c.bb):
                continue
            # the loop header is on every path to the return
            if any(g.term(b)[0] == "ret" for b in g.reach_avoiding_from_entry({c.bb})):
                continue
            res = pv[0][1] - 1
    cache[g.name] = res
    return res


def check_container_indexed(chk, prog):
    """val_index (element value -> ids of the containers mentioning it) drives incremental container rebuilds and the
    dirty-id closure: a container registered under an id must be indexed under that id for every element."""
    from .join_common import cross_origins, atom_path
    R = chk.rule("R-CONTAINER-INDEXED", "ContainerEnv: whenever a container is registered under an id V (to_container.insert(V, (hash, shard)) — first interning, re-insertion into a vacant "
                 "slot, or a collision whose merged id differs from the old one), every path to the function's return or to the next loop iteration runs the loop "
                 "`for e in container.iter() { val_index.entry(e).or_default().insert(V) }` over that container (or undoes the registration with to_container.remove(V)). "
                 "Pure re-keys of an in-place container (the tuple comes from to_container.remove) are listed, not judged")
    n = 0
    rekeys = 0
    for f in prog.lib_fns(["egglog_core_relations"]):
        root = f.root or f.name
        if not root.startswith(CE + "::"):
            continue

        def on_field(h, operand, field):
            return any(atom_path(a) and atom_path(a)[-1:] == (field,) for _, a in cross_origins(prog, h, operand))
        sites = [c for c in f.calls if c.p.endswith("DashMap::insert") and len(c.args) >= 3 and on_field(f, c.args[0], "to_container")]
        if not sites:
            continue
        idx_inserts = []
        for c in f.calls:
            if c.p.endswith("IndexSet::insert") or c.p.endswith("IndexSet::insert_full"):
                ra = f.origins(c.args[0])
                if any(a[0] == "call" and a[1].endswith("Entry::or_default") for a in ra):
                    # entry(..) on val_index
                    ok_recv = False
                    for a in ra:
                        if a[0] == "call":
                            od = f.call_at(a[2])
                            for b in f.origins(od.args[0]):
                                if b[0] == "call" and b[1].endswith("DashMap::entry"):
                                    en = f.call_at(b[2])
                                    if on_field(f, en.args[0], "val_index"):
                                        ok_recv = True
                    if ok_recv:
                        idx_inserts.append(c)
        loops = []
        for c in f.calls:
            if (c.p.endswith("Iterator>::next") or c.p.endswith("Iterator::next")) and any(a[0] == "call" and a[1].endswith("ContainerValue::iter") for a in f.origins(c.args[0])):
                sw = c.target
                if sw is not None and f.term(sw)[0] == "switch":
                    some = [tb for v, tb in f.term(sw)[2] if v == "1"]
                    if some:
                        loops.append((c, some[0]))
        for c in sites:
            tup = f.origins(c.args[2])
            if any(a[0] == "call" and a[1].endswith("DashMap::remove") for a in tup):
                rekeys += 1
                continue
            n += 1
            V = f.origins(c.args[1])
            good = set()
            for (nx, some) in loops:
                ins = {i.bb for i in idx_inserts if f.origins(i.args[1]) & V}
                if not ins:
                    continue
                r = {some} | f.reach_avoiding([some], ins) if some not in ins else set()
                if nx.bb not in r:
                    good.add(nx.bb)
            # a helper that always runs the indexing loop for the id it is given counts as the loop ("a wrapper is the thing it always does")
            for hc in f.calls:
                g2 = prog.fns.get(hc.p)
                if g2 is None or not (g2.root or g2.name).startswith(CE + "::") or g2 is f:
                    continue
                pos = _indexing_helper_param(prog, g2)
                if pos is not None and pos < len(hc.args) and (f.origins(hc.args[pos]) & V):
                    good.add(hc.bb)
            undo = {u.bb for u in f.calls if u.p.endswith("DashMap::remove") and on_field(f, u.args[0], "to_container") and (f.origins(u.args[1]) & V)}
            doms = f.dom.get(c.bb, set())
            bad = None
            seen = set()
            stack = [c.target] if c.target is not None else []
            while stack:
                x = stack.pop()
                if x in seen or x in good or x in undo:
                    continue
                seen.add(x)
                if f.term(x)[0] == "ret":
                    bad = "the function returns"
                    break
                if x in doms:
                    bad = "the next iteration starts"
                    break
                stack.extend(f.succ[x])
            arm = ""
            for g in guards(f, c.bb):
                if "variant" in g:
                    arm = ":" + "/".join(g["variant"])
            chk.judge(bad is None, R, f"{root}:register{arm}{'@closure' if f.kind == 'closure' else ''}", "a container registered under an id is indexed under it for every element",
                      f"a container is registered under an id but {bad} on a path that does not index its elements under that id in val_index: a later incremental rebuild "
                      "(or dirty-id closure) of one of its elements does not find the container, which keeps a non-canonical element", c.loc)
    chk.floor(R, n, 5, "container registration sites (get_or_insert, insert_owned x2, parallel re-insert x2)")
    chk.extra["container_rekey_sites_not_judged"] = rekeys


def check_rebuild_contents(chk, prog):
    R = chk.rule("R-REBUILD-CONTENTS", "every `impl ContainerValue`: rebuild_contents passes its stored values through ValueRebuilder::{rebuild_val, rebuild_slice} and returns a computed "
                 "flag (never a constant on every path)")
    n = 0
    for im in prog.impls:
        if not (im["trait"] and im["trait"].endswith("containers::ContainerValue")):
            continue
        m = next((x for x in im["methods"] if x.endswith("::rebuild_contents")), None)
        f = prog.fns.get(m) if m else None
        if f is None:
            continue
        n += 1
        reg = prog.region(f)
        # one level of local helper calls
        helpers = []
        for g in reg:
            for c in g.calls:
                h = prog.fns.get(c.p)
                if h is not None and h.crate == f.crate and h not in reg and h not in helpers:
                    helpers.append(h)
        allf = reg + [x for h in helpers for x in prog.region(h)]
        uses = any(c.d in (VR + "rebuild_val", VR + "rebuild_slice") or c.p in (VR + "rebuild_val", VR + "rebuild_slice") for g in allf for c in g.calls)
        ret = f.origins([0, []])
        computed = any(a[0] != "const" for a in ret)
        chk.judge(uses and computed, R, f"{im['self_adt']}::rebuild_contents", "contents rebuilt through the ValueRebuilder; change flag computed",
                  f"container sort does not rebuild its contents (uses rebuilder: {uses}) or always reports a constant (returns {fmt_atoms(ret)}): its rows are never refreshed", f.loc)
    chk.floor(R, n, 6, "ContainerValue implementations (Vec, Set, Map, MultiSet, Pair, Function)")


def run(chk, prog, tier):
    chk.explanation = EXPLANATION
    chk.assumptions = ["rustc nightly MIR construction", "R-FIXPOINT (C01) covers the loop's exit condition, R-RESTAMP (C03) the re-stamping of refreshed rows"]
    check_order(chk, prog)
    check_dirty_closure(chk, prog)
    check_siblings(chk, prog)
    check_container_indexed(chk, prog)
    check_rebuild_contents(chk, prog)
    R = chk.rule("R-MIN", "the container merge closure returns min(old,new) of the ids it unions")
    mc.check_bridge_min(chk, prog, R)
