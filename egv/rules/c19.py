"""C19 — the thread pool and shared-memory helpers are safe under any interleaving.

Decides (ordering / pairing facts the safety comments rest on):
  R-SPAWN-ORDER   expect_one before enqueue; erase_job_lifetime (the transmute) has exactly one caller
  R-JOB-COMPLETES the spawned job runs the user callback only inside catch_unwind, records a panic before it
                  completes, and calls complete_one on every normal path; enqueue runs the job inline when the
                  send fails
  R-SCOPE-WAITS   scope runs the callback inside catch_unwind, always calls complete_root_and_wait before it
                  returns or resumes a panic, re-raises a worker panic; complete_root_and_wait waits unless
                  complete_one returned true; the done signal is sent only when completed == expected
  R-LOCK          MutexWriter is only built in lock() after the successful token CAS and the readers-done wait;
                  MutexReader only in read() on the ReadOk arm; the UnsafeCell is dereferenced only by the guard
                  types / read(); the writer's Drop publishes ReadOk before notifying
  R-PUBLISH       ConcurrentVec::push / resize_with write the slot(s) before publishing `head` with a store,
                  under the write lock; ParallelVecWriter writes only into space it reserved
Compile-fail witnesses for the lifetime encodings live in witness/ (thorough tier).
"""
from ..util import guards, edge_relation, variant_is, fmt_atoms
from .rebuild_common import RebuildModel

EXPLANATION = (
    "Static clause of C19 decided on MIR: the ordering and pairing facts the code's safety comments rest on — counting before "
    "publishing a job, completion on every path of a job, the scope waiting before it returns or re-raises, lock hand-over "
    "order, write-then-publish in the shared vector. Not decided: deadlock freedom, absence of lost wake-ups, linearizability "
    "(schedule properties)."
)

TP = "egglog_concurrency::threadpool::"
CC = "egglog_concurrency::"


def check_spawn(chk, prog):
    R = chk.rule("R-SPAWN-ORDER", "Scope::spawn calls ScopeState::expect_one before enqueue; erase_job_lifetime (transmute of the job's lifetime) is called only from Scope::spawn")
    f = prog.need(TP + "Scope::spawn")
    ex = f.calls_to(TP + "ScopeState::expect_one")
    en = f.calls_to(TP + "enqueue")
    ok = bool(ex) and bool(en) and all(any(f.dominates(a.bb, b.bb) for a in ex) for b in en)
    chk.judge(ok, R, TP + "Scope::spawn:count-before-publish", "the job is counted before it can run",
              "a job can be enqueued (and complete) before it is counted: the scope may return while it still runs", f.loc)
    callers = {g.root or g.name for g, c in prog.direct_callers(TP + "erase_job_lifetime")}
    chk.judge(callers == {TP + "Scope::spawn"}, R, TP + "erase_job_lifetime:callers", "lifetime erasure only inside spawn",
              f"erase_job_lifetime is called from {sorted(callers)}", None)


def check_job(chk, prog):
    R = chk.rule("R-JOB-COMPLETES", "the job closure built by Scope::spawn invokes the user callback only inside the closure passed to catch_unwind, calls record_panic on the Err arm "
                 "and complete_one on every normal path; enqueue runs the job inline on the send-failure arm")
    f = prog.need(TP + "Scope::spawn")
    job = None
    for g in prog.children(f):
        if g.calls_to(TP + "ScopeState::complete_one"):
            job = g
    if job is None:
        chk.missing(R, "job closure calling complete_one")
        return
    co = job.calls_to(TP + "ScopeState::complete_one")
    path = RebuildModel._path_to_ret(job, [0], {c.bb for c in co}, set())
    chk.judge(path is None, R, TP + "Scope::spawn:job:complete_one", "complete_one is called on every normal path of the job",
              f"the job can finish without complete_one (the scope would wait forever or return early): path {path}", job.loc)
    cu = [c for c in job.calls if c.p.endswith("panic::catch_unwind")]
    inner_ok = False
    user_calls_outside = []
    for c in job.calls:
        if c.d.endswith("FnOnce::call_once") and any(a[0] == "param" and a[1] == 1 for x in c.args[:1] for a in job.origins(x)):
            user_calls_outside.append(c)
    for c in cu:
        for a in job.origins(c.args[0]):
            if a[0] == "closure":
                h = prog.fns.get(a[1])
                if h is not None and any(x.d.endswith("FnOnce::call_once") for x in h.calls):
                    inner_ok = True
            # AssertUnwindSafe(closure)
            if a[0] == "agg":
                st = job.stmt(a[4], a[5])
                for o in st[2][4]:
                    for b in job.origins(o):
                        if b[0] == "closure":
                            h = prog.fns.get(b[1])
                            if h is not None and any(x.d.endswith("FnOnce::call_once") for x in h.calls):
                                inner_ok = True
    chk.judge(inner_ok and not user_calls_outside, R, TP + "Scope::spawn:job:catch_unwind", "the user callback runs only under catch_unwind",
              "the user callback is invoked outside catch_unwind: a panicking task would skip complete_one", job.loc)
    rp = job.calls_to(TP + "ScopeState::record_panic")
    ok = bool(rp)
    for c in rp:
        g_ok = any(variant_is(g, 1) for g in guards(job, c.bb))
        before = any(x.bb in job.reach(c.bb) for x in co)
        ok = ok and g_ok and before
    chk.judge(ok, R, TP + "Scope::spawn:job:record_panic", "a task panic is recorded (Err arm) before completion is signalled",
              "a task's panic is not recorded before complete_one", job.loc)
    e = prog.need(TP + "enqueue")
    inline = False
    for c in e.calls:
        if c.d.endswith("FnOnce::call_once") or c.p.endswith("FnOnce>::call_once"):
            if any(variant_is(g, 1) for g in guards(e, c.bb)):
                inline = True
    chk.judge(inline, R, TP + "enqueue:inline-on-failure", "a job that cannot be sent is run inline (its completion is still counted)",
              "a job whose send fails is dropped: the scope waits for a completion that never comes", e.loc)


def check_scope(chk, prog):
    R = chk.rule("R-SCOPE-WAITS", "ThreadPoolState::scope: callback only under catch_unwind; complete_root_and_wait dominates every return and resume_unwind; a worker panic taken by take_panic is "
                 "re-raised on the Ok arm. complete_root_and_wait: wait() unless complete_one() returned true. ScopeState::complete_one: done signal only when completed == expected")
    f = prog.need(TP + "ThreadPoolState::scope")
    cw = f.calls_to(TP + "Scope::complete_root_and_wait")
    ru = [c for c in f.calls if c.p.endswith("panic::resume_unwind")]
    rets = f.ret_blocks
    ok = bool(cw) and all(any(f.dominates(a.bb, b) for a in cw) for b in rets + [c.bb for c in ru])
    chk.judge(ok, R, TP + "ThreadPoolState::scope:wait-first", "the scope waits for all tasks before returning or re-raising",
              "scope can return (or resume a panic) before complete_root_and_wait: borrowed stack data may still be in use by tasks", f.loc)
    direct_user = [c for c in f.calls if c.d.endswith("FnOnce::call_once")]
    chk.judge(not direct_user and any(c.p.endswith("panic::catch_unwind") for c in f.calls), R, TP + "ThreadPoolState::scope:catch_unwind",
              "the root callback runs under catch_unwind", "the root callback is invoked outside catch_unwind (a panic would skip the wait)", f.loc)
    tk = f.calls_to(TP + "ScopeState::take_panic")
    reraise = False
    for c in ru:
        at = f.origins(c.args[0])
        if any(a[0] == "call" and a[1] == TP + "ScopeState::take_panic" for a in at):
            reraise = True
    chk.judge(bool(tk) and reraise, R, TP + "ThreadPoolState::scope:worker-panic", "a worker panic is re-raised to the scope's caller",
              "a panic recorded by a worker is never re-raised by scope()", f.loc)
    g = prog.need(TP + "Scope::complete_root_and_wait")
    co = g.calls_to(TP + "ScopeState::complete_one")
    wt = g.calls_to(TP + "ScopeState::wait")
    ok = bool(co) and bool(wt)
    for w in wt:
        gs = [x for x in guards(g, w.bb) if "truth" in x and x["desc"][0] == "call" and x["desc"][1].p == TP + "ScopeState::complete_one"]
        ok = ok and any(x["truth"] is False for x in gs)
    # and the no-wait path exists only when complete_one was true
    if ok:
        path = RebuildModel._path_to_ret(g, [c.target for c in co], {w.bb for w in wt}, set())
        if path is not None:
            # the path that skips wait must take the `true` edge of complete_one
            took_true = False
            for a, b in zip(path, path[1:]):
                r = edge_relation(g, a, b)
                if r and r.get("truth") is True and r["desc"][0] == "call" and r["desc"][1].p == TP + "ScopeState::complete_one":
                    took_true = True
            ok = took_true
    chk.judge(ok, R, TP + "Scope::complete_root_and_wait", "waits unless the root's own completion was the last one",
              "complete_root_and_wait can skip the wait although tasks are still outstanding", g.loc)
    h = prog.need(TP + "ScopeState::complete_one")
    sends = [c for c in h.calls if c.p.endswith("Sender::try_send") or c.p.endswith("Sender::send")]
    ok = bool(sends)
    for s in sends:
        ok = ok and any(x.get("rel") == "Eq" for x in guards(h, s.bb))
    chk.judge(ok, R, TP + "ScopeState::complete_one", "done is signalled only when completed == expected",
              "the done signal is sent without the completed == expected test", h.loc)


def check_lock(chk, prog):
    R = chk.rule("R-LOCK", "MutexWriter is constructed only in ReadOptimizedLock::lock, after the successful token CAS (ptr::eq test) and after readers_done.wait(); MutexReader only in read() on "
                 "the ReadOk arm; UnsafeCell::get on the lock's data only in the guard types and read(); MutexWriter::drop stores the ReadOk token before notifying")
    writers = []
    readers = []
    for f in prog.lib_fns(["egglog_concurrency"]):
        for i, j, s in f.assigns():
            if s[2][0] == "agg" and s[2][2] == CC + "MutexWriter":
                writers.append((f, i))
            if s[2][0] == "agg" and s[2][2] == CC + "MutexReader":
                readers.append((f, i))
    okw = bool(writers) and all((f.root or f.name) == CC + "ReadOptimizedLock::lock" for f, _ in writers)
    for f, bb in writers:
        if (f.root or f.name) != CC + "ReadOptimizedLock::lock":
            continue
        cas = [c for c in f.calls if c.p.endswith("compare_and_swap")]
        waits = [c for c in f.calls if c.p.endswith("Notification::wait") and any(a[0] == "call" and a[1].endswith("Clone>::clone") is False for a in [("x", "y")])]
        waits = [c for c in f.calls if c.p.endswith("Notification::wait")]
        dom_cas = any(f.dominates(c.bb, bb) for c in cas)
        dom_wait = any(f.dominates(c.bb, bb) for c in waits)
        eq_ok = any(g.get("truth") is True and g["desc"][0] == "call" and g["desc"][1].p.endswith("ptr::eq") for g in guards(f, bb))
        okw = okw and dom_cas and dom_wait and eq_ok
    chk.judge(okw, R, CC + "ReadOptimizedLock::lock:writer", "exclusive guard handed out only after winning the CAS and waiting for readers",
              "MutexWriter can be created without the successful token CAS / the readers-done wait (two writers or a reader and a writer can overlap)",
              writers[0][0].loc if writers else None)
    okr = bool(readers) and all((f.root or f.name) == CC + "ReadOptimizedLock::read" for f, _ in readers)
    for f, bb in readers:
        adt = prog.adts.get(CC + "ReadToken")
        idx = [v["name"] for v in adt["variants"]].index("ReadOk") if adt else 0
        okr = okr and any(variant_is(g, idx) for g in guards(f, bb))
    chk.judge(okr, R, CC + "ReadOptimizedLock::read:reader", "read guard handed out only while the token says ReadOk",
              "MutexReader can be created while a write is ongoing", readers[0][0].loc if readers else None)
    allowed = {f"<{CC}MutexWriter as core::ops::deref::Deref>::deref", f"<{CC}MutexWriter as core::ops::deref::DerefMut>::deref_mut", CC + "ReadOptimizedLock::read"}
    bad = []
    n = 0
    for f in prog.lib_fns(["egglog_concurrency"]):
        for c in f.calls:
            if c.p == "core::cell::UnsafeCell::get":
                at = f.origins(c.args[0])
                if any(a[0] == "param" and "data" in a[2] and ("lock" in a[2] or a[2] == ("data",)) for a in at) and CC + "ReadOptimizedLock" in " ".join(f.locals[1:f.argc + 1]) + f.locals[1] if f.argc else False:
                    n += 1
                    if (f.root or f.name) not in allowed:
                        bad.append(f.root or f.name)
                elif any(CC + "MutexWriter" in t for t in f.locals[1:f.argc + 1]):
                    n += 1
                    if (f.root or f.name) not in allowed:
                        bad.append(f.root or f.name)
    chk.judge(not bad and n >= 3, R, CC + "ReadOptimizedLock:unsafe-cell-access", f"UnsafeCell::get on the lock's data in {n} allowed places",
              f"raw access to the lock's data from {sorted(set(bad))} (or fewer than 3 accessor sites found: {n})", None)
    d = prog.fns.get(f"<{CC}MutexWriter as core::ops::drop::Drop>::drop")
    if d is None:
        chk.missing(R, "Drop for MutexWriter")
    else:
        st = [c for c in d.calls if c.p.endswith("::store")]
        nt = [c for c in d.calls if c.p.endswith("Notification::notify")]
        builds_readok = any(s[2][0] == "agg" and s[2][2] == CC + "ReadToken" and s[2][3] == "ReadOk" for i, j, s in d.assigns())
        ok = bool(st) and bool(nt) and builds_readok and all(any(d.dominates(a.bb, b.bb) for a in st) for b in nt)
        chk.judge(ok, R, CC + "MutexWriter::drop", "ReadOk token is published before waiters are notified",
                  "MutexWriter::drop notifies before (or without) publishing the ReadOk token: woken readers spin or sleep forever", d.loc)
    # ResettableOnceLock
    ro = CC + "resettable_oncelock::ResettableOnceLock"
    rs = prog.fns.get(ro + "::reset")
    if rs is not None:
        chk.judge(rs.locals[1].startswith("&mut"), R, ro + "::reset:signature", "reset takes &mut self (no concurrent readers by construction)",
                  "ResettableOnceLock::reset no longer requires exclusive access", rs.loc)
    else:
        chk.missing(R, "ResettableOnceLock::reset")


def check_publish(chk, prog):
    R = chk.rule("R-PUBLISH", "ConcurrentVec::push and resize_with: the write lock is taken first, `head` is re-read under it, and the value published by head.store covers exactly "
                 "the slots written before it — push_at(i = head) then head := i + 1, or `for i in head..X { push_at(.., i) }` then head := X; "
                 "ParallelVecWriter raw writes use an offset obtained from reserve_space")
    cv = CC + "concurrent_vec::ConcurrentVec"
    for name in ("push", "resize_with"):
        f = prog.need(f"{cv}::{name}")
        lock = [c for c in f.calls if c.p.endswith("Mutex::lock")]
        store = [c for c in f.calls if c.p.endswith("::store")]
        pa = [c for c in f.calls if c.p == cv + "::push_at"]
        loads = {c.bb for c in f.calls if c.p.endswith("::load") and any(a[0] == "param" and a[2][-1:] == ("head",) for a in f.origins(c.args[0]))}
        # the head value read under the write lock
        locked_loads = {b for b in loads if any(f.dominates(l.bb, b) for l in lock)}

        def from_locked_head(operand):
            at = f.origins(operand)
            return bool(at) and all(a[0] == "call" and a[2] in locked_loads for a in at)
        ok = bool(lock) and bool(store) and bool(pa) and bool(locked_loads)
        why = "no lock / store / push_at / head load under the lock"
        for st in store if ok else []:
            ok = ok and any(f.dominates(l.bb, st.bb) for l in lock) and st.bb not in f.reach(st.bb)
            V = st.args[1]
            covered = False
            # (A) one slot: push_at(item, i) with i = head, publish i + 1
            for c in pa:
                if f.dominates(c.bb, st.bb) and from_locked_head(c.args[2]):
                    for a in f.origins(V):
                        if a[0] == "bin" and a[1] in ("Add", "AddWithOverflow"):
                            stt = f.stmt(a[2], a[3])
                            ops = stt[2][2:4]
                            if any(from_locked_head(o) for o in ops if o[0] in ("c", "m")) and any(o[0] == "k" and o[1].startswith("1") for o in ops):
                                covered = True
            # (B) a range of slots: for i in head..X { push_at(item, i) } ; publish X
            for nx in f.calls:
                if not (nx.p.endswith("Iterator>::next") or nx.p.endswith("Iterator::next")) or "Range" not in nx.p:
                    continue
                rng = [a for a in f.origins(nx.args[0]) if a[0] == "agg" and str(a[2]).endswith("ops::range::Range")]
                if not rng:
                    continue
                stt = f.stmt(rng[0][4], rng[0][5])
                r_start, r_end = stt[2][4][0], stt[2][4][1]
                if not from_locked_head(r_start):
                    continue
                sw = nx.target
                if sw is None or f.term(sw)[0] != "switch":
                    continue
                some = [tb for v, tb in f.term(sw)[2] if v == "1"]
                if not some:
                    continue
                body_pa = {c.bb for c in pa if any(a[0] == "call" and a[2] == nx.bb for a in f.origins(c.args[2]))}
                if not body_pa:
                    continue
                r = {some[0]} | f.reach_avoiding([some[0]], body_pa) if some[0] not in body_pa else set()
                if nx.bb in r:
                    continue
                in_loop = (st.bb == some[0] or st.bb in f.reach(some[0])) and nx.bb in f.reach(st.bb)
                if f.dominates(nx.bb, st.bb) and not in_loop and (f.origins(V) == f.origins(r_end)):
                    covered = True
            if not covered:
                ok = False
                why = ("the value stored into `head` is not covered by the slots written before it: expected either push_at(i = head) followed by head := i + 1, or a loop "
                       "`for i in head..X { push_at(.., i) }` followed by head := X. Publishing further than what was written exposes uninitialised slots to readers")
        chk.judge(ok, R, f"{cv}::{name}", "slot(s) written under the write lock before `head` is published, and `head` advances exactly over the written slots",
                  why if not ok else "", f.loc)
    pw = CC + "parallel_writer::ParallelVecWriter"
    n = 0
    for f in prog.lib_fns(["egglog_concurrency"]):
        if not (f.root or f.name).startswith(pw + "::"):
            continue
        rs = f.calls_to(pw + "::reserve_space")
        if not rs:
            continue
        raw = [c for c in f.calls if c.p.endswith("ptr::copy_nonoverlapping") or c.p.endswith("::write") and "ptr" in c.p or c.p.endswith("::add") and "ptr" in c.p]
        if not raw:
            continue
        n += 1
        ok = all(any(f.dominates(r.bb, c.bb) for r in rs) for c in raw)
        chk.judge(ok, R, f"{f.root or f.name}:reserve-before-write", "raw writes happen after the space was reserved",
                  "a raw write can happen before (or without) reserve_space", f.loc)
    chk.floor(R, n, 1, "ParallelVecWriter functions that reserve and write")


# (owner type suffix, atomic operation) -> (minimum ordering, reason). Only hand-over points whose ordering is NECESSARY are
# listed; flags and id counters (stop_match, Counters, MatchCounter, TableIdentity, NotificationState) carry no data and are free.
ORDERING_TABLE = {
    ("concurrent_vec::ConcurrentVec", "store"): ("Release", "publishes the slot written by push_at: a reader that sees the new head dereferences the slot"),
    ("concurrent_vec::ConcurrentVec", "load"): ("Acquire", "pairs with the Release store of head before slots below it are dereferenced"),
    ("notification::Notification", "store"): ("Release", "notify() is the hand-over of ReadOptimizedLock (writer -> waiting readers, last reader -> writer): what happened before it must be visible after wait()"),
    ("notification::Notification", "load"): ("Acquire", "pairs with notify()'s Release store"),
    ("threadpool::AtomicCounts", "fetch_add"): ("AcqRel", "complete_one: every job's writes must happen-before the scope's return; the completions form one release sequence that the last completer acquires"),
}
SATISFIES = {
    "Release": ("Release", "AcqRel", "SeqCst"),
    "Acquire": ("Acquire", "AcqRel", "SeqCst"),
    "AcqRel": ("AcqRel", "SeqCst"),
}


def _orderings(f, c):
    out = []
    for a in c.args[1:]:
        for o in f.origins(a):
            if o[0] == "agg" and str(o[2]).endswith("atomic::Ordering"):
                out.append(o[3])
            elif o[0] == "const" and "Ordering::" in str(o[1]):
                out.append(str(o[1]).rsplit("::", 1)[-1])
    return out


def check_orderings(chk, prog):
    R = chk.rule("R-ORDERINGS", "memory orderings at the hand-over points are not weaker than the frozen table (owner type, atomic operation) -> minimum ordering: "
                 "ConcurrentVec.head store >= Release / load >= Acquire; Notification flag store >= Release / load >= Acquire; AtomicCounts fetch_add >= AcqRel; "
                 "ReadOptimizedLock::read issues fence(>= Acquire) between observing the ReadOk token and handing out the shared reference. Stronger orderings pass")
    from ..util import _head
    from .join_common import cross_origins
    seen = {}
    for f in prog.lib_fns(["egglog_concurrency"]):
        for c in f.calls:
            if "sync::atomic::Atomic" not in c.p or c.p.endswith("::new") or not c.args:
                continue
            op = c.p.rsplit("::", 1)[-1]
            owners = set()
            for fn_name, o in cross_origins(prog, f, c.args[0]):
                if o[0] == "param":
                    g = prog.fns[fn_name]
                    owners.add(_head(g.locals[o[1]]))
            for ow in owners:
                for (suffix, top), (need, why) in ORDERING_TABLE.items():
                    if ow.endswith(suffix) and op == top:
                        got = _orderings(f, c)
                        ok = bool(got) and got[0] in SATISFIES[need]
                        seen[(suffix, top)] = seen.get((suffix, top), 0) + 1
                        chk.judge(ok, R, f"{f.root or f.name}:{op}", f"{op} is {got[0] if got else '?'} (needs >= {need})",
                                  f"{op} on {suffix.rsplit('::', 1)[-1]} uses ordering {got} but needs at least {need}: {why}", c.loc)
    for key in ORDERING_TABLE:
        if key not in seen:
            chk.missing(R, f"atomic {key[1]} on {key[0]}")
    # the fence in ReadOptimizedLock::read
    rd = prog.need(CC + "ReadOptimizedLock::read")
    fences = [c for c in rd.calls if c.p.endswith("atomic::fence")]
    okf = False
    for c in fences:
        got = []
        for o in rd.origins(c.args[0]):
            if o[0] == "agg":
                got.append(o[3])
        builds = [i for i, j, s in rd.assigns() if s[2][0] == "agg" and s[2][1] == "adt" and str(s[2][2]).endswith("MutexReader")]
        if got and got[0] in SATISFIES["Acquire"] and builds and all(rd.dominates(c.bb, b) for b in builds):
            okf = True
    chk.judge(okf, R, "ReadOptimizedLock::read:fence", "an Acquire fence separates observing ReadOk from handing out &T",
              "ReadOptimizedLock::read hands out the shared reference without an Acquire fence after observing the ReadOk token: a reader may see the data as it was before the writer's unlock", rd.loc)


RAW_WRITES = ("core::ptr::write", "core::ptr::copy_nonoverlapping", "core::ptr::copy", "core::ptr::write_bytes", "core::ptr::write_volatile",
              "ptr::mut_ptr::<impl *mut T>::write", "ptr::mut_ptr::<impl *mut T>::copy_from_nonoverlapping", "ptr::mut_ptr::<impl *mut T>::write_bytes")
GUARD_ACQUIRE = ("ReadOptimizedLock::read", "ReadOptimizedLock::lock", "Mutex::lock", "RwLock::read", "RwLock::write")
PTR_PASS = ("::add", "::offset", "::cast", "::as_ptr", "::as_mut_ptr", "::sub", "::wrapping_add", "::cast_mut", "::cast_const", "Deref>::deref", "DerefMut>::deref_mut",
            "Result::unwrap", "::get", "slice::from_raw_parts_mut")


def _guard_sources(f, operand, depth=0, seen=None):
    """guard-acquiring calls the pointer operand is derived from (through pointer arithmetic, as_ptr and the guard's deref)"""
    if seen is None:
        seen = set()
    out = set()
    for a in f.origins(operand):
        if a in seen:
            continue
        seen.add(a)
        if a[0] == "call":
            c = f.call_at(a[2])
            if c is None:
                continue
            if c.p.endswith(GUARD_ACQUIRE):
                out.add(c.bb)
            elif c.args and depth < 8 and c.p.endswith(PTR_PASS):
                out |= _guard_sources(f, c.args[0], depth + 1, seen)
        elif a[0] == "bin" and depth < 8:
            st = f.stmt(a[2], a[3])
            from ..facts import rv_operands
            for o in rv_operands(st[2]):
                out |= _guard_sources(f, o, depth + 1, seen)
    return out


def check_guard_spans_raw(chk, prog):
    R = chk.rule("R-GUARD-SPANS-RAW", "egglog_concurrency: a raw write (ptr::write / copy_nonoverlapping / ...) through a pointer obtained from behind a lock guard (ReadOptimizedLock::read/lock, "
                 "Mutex::lock, RwLock::read/write) happens while that guard is still alive: no path from the acquisition to the write passes the guard's drop (scope end or mem::drop). "
                 "The guard is what keeps a concurrent resize from freeing the buffer the pointer points into")
    n = 0
    for f in prog.lib_fns(["egglog_concurrency"]):
        writes = [c for c in f.calls if c.p.endswith(RAW_WRITES) or c.d.endswith(RAW_WRITES)]
        for w in writes:
            # destination pointer: first argument of ptr::write(dst, v); second of copy_nonoverlapping(src, dst, n)
            di = 1 if w.p.endswith(("copy_nonoverlapping", "ptr::copy")) else 0
            if di >= len(w.args):
                continue
            acq = _guard_sources(f, w.args[di])
            if not acq:
                continue
            n += 1
            bad = None
            for ab in acq:
                a = f.call_at(ab)
                from ..util import copies_of
                Gs = copies_of(f, a.dest[0])
                drops = set()
                for b in f.live:
                    t = f.term(b)
                    if t[0] == "drop" and t[1][0] in Gs and not t[1][1]:
                        drops.add(b)
                for c2 in f.calls:
                    if c2.p.endswith("mem::drop") and c2.args and c2.args[0][0] in ("m", "c") and c2.args[0][1][0] in Gs:
                        drops.add(c2.bb)
                    # moved into a copy local then dropped
                reach_a = f.reach(ab)
                for d in drops:
                    if d in reach_a and (w.bb in f.reach(d)):
                        # a loop back edge from after-the-function's-end is impossible; but a drop inside a loop before re-acquisition is fine
                        if ab in f.reach(d) and not _reaches_avoiding(f, d, w.bb, {ab}):
                            continue
                        bad = (a, d)
            chk.judge(bad is None, R, f"{f.root or f.name}:{w.p.rsplit('::', 1)[-1]}", "raw write happens under the guard that pins the buffer",
                      "the lock guard the destination pointer was obtained through can be dropped before the raw write: a concurrent writer may resize (reallocate) the buffer in "
                      "between and the write lands in freed memory", w.loc)
    chk.floor(R, n, 2, "raw writes through guarded pointers (ParallelVecWriter::write_contents_at, write_slice_raw)")


def _reaches_avoiding(f, src, dst, avoid):
    seen = set()
    stack = list(f.succ[src])
    while stack:
        x = stack.pop()
        if x in seen or x in avoid:
            continue
        seen.add(x)
        if x == dst:
            return True
        stack.extend(f.succ[x])
    return False


def run(chk, prog, tier):
    chk.explanation = EXPLANATION
    chk.assumptions = ["rustc nightly MIR construction", "unwinding out of the job closure is excluded by catch_unwind (checked), other unwind paths are not part of 'every path'"]
    check_spawn(chk, prog)
    check_job(chk, prog)
    check_scope(chk, prog)
    check_lock(chk, prog)
    check_publish(chk, prog)
    check_orderings(chk, prog)
    check_guard_spans_raw(chk, prog)
