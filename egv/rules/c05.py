"""C05 — a function's value is the merge of everything written to its key.

Decides (structural necessary conditions only):
  R-MERGE-STORED   at every call site of a table merge function, on the path where it reports a
                   change, the merge *output buffer* is what gets written to row storage, the
                   previous row is marked stale and the hash entry is re-pointed at the written row
  R-INSERT-AFTER-PROBE a new hash entry for a key is created only after a lookup of that key missed
  R-NOMERGE-PANICS the AssertEq (:no-merge) arm calls the panic external function under cur != new
  R-OLD-NEW        "old" builds MergeFn::Old and "new" builds MergeFn::New
  R-MERGE-ARGS     every merge call passes (current row, incoming row) in that order
"""
from ..util import (guards, params_of, variant_is, result_branches, region_of_branch, region_calls, match_arms, arm_region,
                    fmt_atoms)

EXPLANATION = (
    "Static clause of C05 decided on MIR: every collision path runs the merge function and stores its "
    "output (not the incoming row); :no-merge conflicts reach the panic function; old/new are not swapped. "
    "Not decided: that the fold is order-independent for every history (algebra over data)."
)

ROW_STORE_PREFIXES = (
    "egglog_core_relations::row_buffer::",
    "egglog_core_relations::table::Rows::",
)


def is_merge_call(c):
    if not (c.d.startswith("core::ops::function::Fn") and "::call" in c.d):
        return False
    if len(c.ga) < 2:
        return False
    tup = c.ga[1].replace("egglog_core_relations::common::", "").replace("alloc::vec::", "").replace(", alloc::alloc::Global", "")
    return tup.rstrip(")").endswith("&[Value], &[Value], &mut Vec<Value>")


def merge_sites(prog):
    out = []
    for f in prog.lib_fns(["egglog_core_relations"]):
        for c in f.calls:
            if is_merge_call(c):
                out.append((f, c))
    return out


def role_key(f):
    # closures are identified by their root function, not their index
    return (f.root or f.name)


def check_merge_stored(chk, prog):
    R = chk.rule("R-MERGE-STORED",
                 "where a table merge function returns true, (a) a row-storage write consumes the merge output buffer, "
                 "(b) the previous row is marked stale, (c) the key's hash entry is re-pointed at the row written in (a)")
    sites = merge_sites(prog)
    chk.floor(R, len(sites), 6, "merge-function call sites in egglog_core_relations (counted: serial_insert x2, parallel_insert flush x2, forwarder, StagedOutputs::insert)")
    roots = {role_key(f) for f, _ in sites}
    for need in ("egglog_core_relations::table::SortedWritesTable::serial_insert",
                 "egglog_core_relations::table::SortedWritesTable::parallel_insert",
                 "egglog_core_relations::table::StagedOutputs::insert"):
        if need not in roots:
            chk.missing(R, f"no merge call site found in {need}")
    n_by_role = {}
    for f, c in sites:
        role = role_key(f)
        n_by_role[role] = n_by_role.get(role, 0) + 1
        # tuple-call ABI: args = [callee, (a, b, c, out)] — the argument tuple is an aggregate
        tup = c.args[1] if len(c.args) > 1 else None
        out_op = None
        cur_op = new_op = None
        if tup and tup[0] in ("c", "m"):
            d = f.single_def(tup[1][0])
            if d and d[3] == "a" and d[4][0] == "agg":
                ops = d[4][4]
                out_op = ops[-1]
                cur_op, new_op = ops[-3], ops[-2]
        key = f"{role}:merge-site#{'closure' if f.kind == 'closure' else 'fn'}"
        if out_op is None:
            chk.bad(R, key, "cannot find the argument tuple of the merge call", c.loc)
            continue
        out_atoms = f.origins(out_op)
        # forwarder: out buffer is a parameter of a closure and the result is returned
        if f.kind == "closure" and out_atoms and all(a[0] == "param" and a[1] >= 2 for a in out_atoms):
            ret_atoms = f.origins([0, []])
            fw = any(a[0] == "call" and a[2] == c.bb for a in ret_atoms)
            chk.judge(fw, R, key + ":forwarder",
                      "forwarding closure returns the merge result and passes its own out-parameter through",
                      "closure takes the out buffer as a parameter but does not return the merge result", c.loc)
            continue
        brs = result_branches(f, c)
        if not brs:
            chk.bad(R, key, "result of the merge call is not branched on (merged row cannot be conditionally stored)", c.loc)
            continue
        for sw, tr, fl in brs:
            reg = region_of_branch(f, sw, tr) | {tr}
            calls = region_calls(f, reg)
            writes = []
            for w in calls:
                if not w.p.startswith(ROW_STORE_PREFIXES):
                    continue
                short = w.p.rsplit("::", 1)[1]
                if short.startswith(("set_stale", "clear", "len", "get_row", "iter")):
                    continue
                for a in w.args:
                    if f.origins(a) & out_atoms:
                        writes.append(w)
                        break
            stale = [w for w in calls if w.p.rsplit("::", 1)[1].startswith("set_stale")]
            # (c) a store through a reference (hash entry) of a value sharing an origin with the write
            repoint = False
            w_atoms = set()
            for w in writes:
                w_atoms |= f.origins(w.dest)
                w_atoms.add(("call", w.p, w.bb, ()))
                for a in w.args:
                    at = f.origins(a)
                    if not (at & out_atoms):
                        w_atoms |= {x for x in at if x[0] != "param" or x[2]}
            for i, j, s in f.assigns():
                if i not in reg:
                    continue
                dst = s[1]
                through = any(isinstance(e, str) and e == "*" for e in dst[1])
                if not through:
                    continue
                srcs = set()
                from ..facts import rv_operands
                for o in rv_operands(s[2]):
                    srcs |= f.origins(o)
                if srcs & w_atoms:
                    repoint = True
            k2 = f"{key}:{n_by_role[role]}"
            detail = dict(site=f"{f.name} bb{c.bb}", out_origin=fmt_atoms(out_atoms),
                          writes=[w.p for w in writes], stale=[w.p for w in stale])
            chk.judge(bool(writes), R, key + ":stores-output",
                      "merged row (out buffer) is written to row storage on the changed path",
                      "merge output buffer is never written to row storage on the changed path: the table keeps the incoming row, not merge(old,new)",
                      c.loc, **detail)
            chk.judge(bool(stale), R, key + ":stales-previous",
                      "previous row marked stale on the changed path",
                      "previous row not marked stale on the changed path", c.loc, **detail)
            if writes:
                chk.judge(repoint, R, key + ":repoints-entry",
                          "hash entry re-pointed at the row written from the merge output",
                          "hash entry is not re-pointed at the row written from the merge output", c.loc, **detail)


def _returned_flag_locals(f):
    """bool locals whose value is (a component of) the function's return value, closed under plain copies"""
    out = set()
    for (bb, idx, dproj, kind, payload) in f.defs.get(0, []):
        if kind != "a":
            continue
        ops = []
        if payload[0] == "use":
            ops = [payload[1]]
        elif payload[0] == "agg":
            ops = payload[4]
        for o in ops:
            if o[0] in ("c", "m") and not o[1][1] and f.locals[o[1][0]] == "bool":
                out.add(o[1][0])
    grew = True
    while grew:
        grew = False
        for l in list(out):
            for (bb, idx, dproj, kind, payload) in f.defs.get(l, []):
                if kind == "a" and not dproj and payload[0] == "use" and payload[1][0] in ("c", "m") and not payload[1][1][1]:
                    src = payload[1][1][0]
                    if src not in out and f.locals[src] == "bool":
                        out.add(src)
                        grew = True
    return out


def check_change_reported(chk, prog, R=None):
    R = R or chk.rule("R-CHANGE-REPORTED", "in the table insert functions (serial_insert, the per-shard closure of parallel_insert) the returned `changed` flag is set to true on the path "
                      "where a merge function reported a change and on the path where a new key is inserted: Database::merge_all's result - the signal every schedule "
                      "combinator stops on - must not miss a replaced value")
    n = 0
    for f, c in merge_sites(prog):
        if f.kind == "closure" and all(a[0] == "param" and a[1] >= 2 for a in f.origins(_out_operand(f, c) or ["k", "", ""])):
            continue  # forwarder
        flags = _returned_flag_locals(f)
        if not flags:
            continue  # StagedOutputs::insert returns nothing: its rows are accounted for by the flush
        n += 1
        key = f"{role_key(f)}:merge-site#{'closure' if f.kind == 'closure' else 'fn'}:reports-change"
        ok = False
        for sw, tr, fl in result_branches(f, c):
            reg = region_of_branch(f, sw, tr) | {tr}
            for i, j, s in f.assigns():
                if i in reg and s[1][0] in flags and not s[1][1] and s[2][0] == "use" and s[2][1][0] == "k" and s[2][1][1] == "true":
                    ok = True
        chk.judge(ok, R, key, "a merge that changed the stored value sets the returned `changed` flag",
                  "the merge function reported a change but the insert does not flag the table as changed: merge_all()/RuleSetReport.changed stay false, so run/repeat/saturate stop "
                  "although the database is still changing", c.loc)
    chk.floor(R, n, 4, "merge sites in insert functions that return a change flag")
    # new keys: every hash-entry creation in a flag-returning insert body is accompanied (dominated or followed in the same block region) by flag := true
    for f, c in merge_sites(prog):
        flags = _returned_flag_locals(f)
        if not flags:
            continue
        for x in f.calls:
            sh = x.p.rsplit("::", 1)[-1]
            if x.p.startswith("hashbrown::") and (sh in ("insert_unique",) or (sh == "insert" and "VacantEntry" in x.p)):
                gs = {g["at"] for g in guards(f, x.bb)}
                okn = False
                for i, j, s in f.assigns():
                    if s[1][0] in flags and not s[1][1] and s[2][0] == "use" and s[2][1][0] == "k" and s[2][1][1] == "true":
                        # the assignment happens whenever the insertion happens: same must-guards or dominates / post-dominates it
                        if f.dominates(i, x.bb) and {g["at"] for g in guards(f, i)} <= gs or i == x.bb or (x.bb in f.dom.get(i, ()) and f.postdominates(i, x.bb)):
                            okn = True
                chk.judge(okn, R, f"{role_key(f)}:new-key{'@closure' if f.kind == 'closure' else ''}:reports-change", "inserting a new key sets the returned `changed` flag",
                          "a new key is inserted without flagging the table as changed", x.loc)
        break_outer = False


def _out_operand(f, c):
    tup = c.args[1] if len(c.args) > 1 else None
    if tup and tup[0] in ("c", "m"):
        d = f.single_def(tup[1][0])
        if d and d[3] == "a" and d[4][0] == "agg":
            return d[4][4][-1]
    return None


def check_insert_after_probe(chk, prog):
    R = chk.rule("R-INSERT-AFTER-PROBE", "in every function body that contains a table merge call site, a new key->row hash entry is created only after a lookup of that key "
                 "missed: through the Vacant arm of HashTable::entry, or by insert_unique control dependent on a None result of the key lookup")
    bodies = {}
    for f, c in merge_sites(prog):
        bodies[f.name] = f
    n = 0
    for f in bodies.values():
        for c in f.calls:
            short = c.p.rsplit("::", 1)[-1]
            if c.p.startswith("hashbrown::") and short == "insert" and "VacantEntry" in c.p:
                n += 1
                at = f.origins(c.args[0])
                ok = any(a[0] == "call" and a[1].endswith("HashTable::entry") for a in at)
                chk.judge(ok, R, f"{role_key(f)}:vacant-insert", "entry inserted through the Vacant arm of a probe",
                          "VacantEntry::insert on an entry that does not come from HashTable::entry", c.loc)
            elif c.p.startswith("hashbrown::") and short in ("insert_unique", "insert_unique_unchecked"):
                n += 1
                ok = False
                for g in guards(f, c.bb):
                    if variant_is(g, 0):
                        at = f.origins(g["place"])
                        if any(a[0] == "call" and (a[1].endswith("get_entry_mut") or "::find" in a[1] or a[1].endswith("HashTable::entry")) for a in at):
                            ok = True
                chk.judge(ok, R, f"{role_key(f)}:insert_unique", "insert_unique only after the key lookup returned None",
                          "insert_unique without a preceding lookup miss for the key: an existing row for the same key is neither merged nor staled "
                          "(the key ends up with several live rows)", c.loc)
    chk.floor(R, n, 5, "hash-entry creation sites in merge-bearing insert functions")


def check_scratch_cleared(chk, prog):
    R = chk.rule("R-SCRATCH-CLEARED", "the merge output buffer is cleared between two merge calls: on every path from a merge call site back to a merge call site (next row) "
                 "Vec::clear is called on the buffer (the merge callback appends to it with extend_from_slice)")
    n = 0
    for f, c in merge_sites(prog):
        out_op = _out_operand(f, c)
        if out_op is None:
            continue
        out_atoms = f.origins(out_op)
        if f.kind == "closure" and out_atoms and all(a[0] == "param" and a[1] >= 2 for a in out_atoms):
            continue  # forwarder
        n += 1
        clears = {x.bb for x in f.calls if x.p.rsplit("::", 1)[-1] == "clear" and x.args and (f.origins(x.args[0]) & out_atoms)}
        sites = {x.bb for g, x in merge_sites(prog) if g is f}
        # can we go from this site to any merge site without passing a clear?
        seen = set()
        stack = list(f.succ[c.bb])
        leak = False
        while stack:
            x = stack.pop()
            if x in seen or x in clears:
                continue
            seen.add(x)
            if x in sites:
                leak = True
                break
            stack.extend(f.succ[x])
        chk.judge(bool(clears) and not leak, R, f"{role_key(f)}:merge-site#{'closure' if f.kind == 'closure' else 'fn'}:out-buffer-cleared",
                  "out buffer cleared before the next merge", "the merge output buffer can reach the next merge call uncleared: the next merged row is appended to the previous one", c.loc)
    chk.floor(R, n, 4, "merge sites with a local/owned out buffer")


def check_merge_args(chk, prog):
    R = chk.rule("R-MERGE-ARGS", "merge functions are called as merge(current row from the table, incoming row): "
                 "the 'current' argument originates from row storage reached through the hash entry, the 'incoming' one from the pending buffer")
    n = 0
    for f, c in merge_sites(prog):
        tup = c.args[1]
        d = f.single_def(tup[1][0]) if tup[0] in ("c", "m") else None
        if not d or d[4][0] != "agg":
            continue
        ops = d[4][4]
        cur, new = ops[-3], ops[-2]
        ca, na = f.origins(cur), f.origins(new)
        if f.kind == "closure" and all(a[0] == "param" for a in ca | na):
            # forwarder: order of its own parameters must be preserved
            cp = sorted(a[1] for a in ca)
            np_ = sorted(a[1] for a in na)
            n += 1
            chk.judge(cp and np_ and cp[0] < np_[0], R, f"{role_key(f)}:forwarder-order",
                      "forwarder passes (cur,new) in parameter order", "forwarder swaps cur/new", c.loc)
            continue
        cur_from_get = any(a[0] == "call" and "get_row" in a[1] for a in ca)
        new_from_get = any(a[0] == "call" and "get_row" in a[1] for a in na)
        n += 1
        chk.judge(cur_from_get and not new_from_get, R, f"{role_key(f)}:cur-new-order",
                  "cur = row fetched from storage via the entry; new = incoming row",
                  f"argument order of the merge call looks swapped (cur origins {fmt_atoms(ca)}, new origins {fmt_atoms(na)})",
                  c.loc)
    chk.floor(R, n, 6, "merge call sites with identifiable (cur,new)")


def value_params(f):
    """parameters of type Value, in order: (cur, new, ts) for ResolvedMergeFn::run"""
    return [i for i in range(1, f.argc + 1) if f.locals[i].endswith("::Value")]


def check_merge_callback(chk, prog):
    R = chk.rule("R-MERGE-CALLBACK", "the callback built by MergeFn::to_callback fills the output row only when something changed and returns exactly that flag; the output row is the "
                 "incoming row's key (extend_from_slice(new)) with ret_val = the resolved merge result and timestamp = the incoming row's timestamp")
    root = prog.need("egglog_bridge::MergeFn::to_callback")
    cb = None
    for g in prog.children(root):
        if g.calls_to("egglog_bridge::SchemaMath::write_table_row") and g.argc >= 5:
            cb = g
    if cb is None:
        chk.missing(R, "merge callback closure calling write_table_row")
        return
    # closure params: _1 env, _2 state, _3 cur, _4 new, _5 out
    cur_p, new_p, out_p = cb.argc - 2, cb.argc - 1, cb.argc
    w = cb.calls_to("egglog_bridge::SchemaMath::write_table_row")[0]
    flag = None
    for g in guards(cb, w.bb):
        if g.get("truth") is True and g["desc"][0] == "val":
            from ..util import trace_back
            flag = trace_back(cb, g["desc"][1])
    ret = cb.origins([0, []])
    ret_ok = flag is not None and cb.origins([flag, []]) == ret
    chk.judge(flag is not None and ret_ok, R, "egglog_bridge::MergeFn::to_callback:changed-flag",
              "write_table_row runs only under `changed`, and `changed` is what the callback returns",
              "the callback writes the output row unconditionally or returns something other than the flag guarding the write (the table would store an empty or stale row)", w.loc)
    ext = [c for c in cb.calls if c.p.endswith("::extend_from_slice")]
    ok_ext = False
    for c in ext:
        ra, sa = cb.origins(c.args[0]), cb.origins(c.args[1])
        if any(a[0] == "param" and a[1] == out_p for a in ra) and any(a[0] == "param" and a[1] == new_p for a in sa) and not any(a[0] == "param" and a[1] == cur_p for a in sa):
            ok_ext = cb.dominates(c.bb, w.bb)
    chk.judge(ok_ext, R, "egglog_bridge::MergeFn::to_callback:row-from-new", "output row starts as a copy of the incoming row",
              "the output row is not built from the incoming row (out.extend_from_slice(new))", w.loc)
    ok_vals = False
    for i, j, s in cb.assigns():
        if s[2][0] == "agg" and s[2][2] == "egglog_bridge::RowVals":
            adt = prog.adts["egglog_bridge::RowVals"]
            names = [fd["name"] for fd in adt["variants"][0]["fields"]]
            ts = cb.origins(s[2][4][names.index("timestamp")])
            rv = cb.origins(s[2][4][names.index("ret_val")])
            ts_ok = bool(ts) and all(a[0] == "param" and a[1] == new_p for a in ts)
            rv_ok = False
            for a in rv:
                if a[0] == "agg" and a[3] == "Some":
                    st = cb.stmt(a[4], a[5])
                    va = cb.origins(st[2][4][0])
                    if va and all(x[0] == "call" and x[1] == "egglog_bridge::ResolvedMergeFn::run" for x in va):
                        rv_ok = True
            ok_vals = ts_ok and rv_ok
    chk.judge(ok_vals, R, "egglog_bridge::MergeFn::to_callback:row-values", "ret_val = resolved.run(..), timestamp = new row's timestamp",
              "the merged row does not carry the merge result / the incoming row's timestamp", w.loc)


def check_nomerge(chk, prog):
    R = chk.rule("R-NOMERGE-PANICS", "in ResolvedMergeFn::run the AssertEq arm calls ExecutionState::call_external_func(panic) "
                 "on the branch where cur != new")
    f = prog.need_role("egglog_bridge::ResolvedMergeFn::run", lambda x: x.crate == "egglog_bridge" and x.locals[0].endswith("::Value") and
                       bool(match_arms(prog, x, "egglog_bridge::ResolvedMergeFn")), "bridge function matching on ResolvedMergeFn and returning a Value")
    arms = match_arms(prog, f, "egglog_bridge::ResolvedMergeFn")
    if not arms:
        chk.missing(R, "match on ResolvedMergeFn in ResolvedMergeFn::run")
        return
    sw, amap, _, _ = arms[0]
    if "AssertEq" not in amap:
        chk.missing(R, "AssertEq arm")
        return
    reg = arm_region(f, sw, amap["AssertEq"])
    calls = [c for c in region_calls(f, reg) if c.is_("ExecutionState::call_external_func")]
    ok = False
    cur_p, new_p = value_params(f)[:2]
    why = "no call to call_external_func in the AssertEq arm"
    for c in calls:
        # argument must be the arm's `panic` field
        a = f.origins(c.args[1])
        from_panic = any(x[0] == "param" and "panic" in x[2] for x in a)
        # control: the call must be guarded by (first Value parameter) != (second Value parameter)
        guarded = False
        for g in guards(f, c.bb):
            if g.get("rel") == "Ne" and params_of(f, g["a"]) | params_of(f, g["b"]) == {cur_p, new_p}:
                guarded = True
        if from_panic and guarded:
            ok = True
        else:
            why = f"call_external_func in AssertEq arm: from_panic={from_panic} guarded_by_cur!=new={guarded}"
    chk.judge(ok, R, "egglog_bridge::ResolvedMergeFn::run:AssertEq",
              "AssertEq arm panics (call_external_func(panic)) exactly under cur != new", why, f.loc)


def check_old_new(chk, prog):
    R = chk.rule("R-OLD-NEW", "translate_expr_to_mergefn maps variable \"old\" to MergeFn::Old and \"new\" to MergeFn::New")
    f = prog.need_role("egglog::EGraph::translate_expr_to_mergefn", lambda x: x.crate == "egglog" and any(
        s[2][0] == "agg" and s[2][2] == "egglog_bridge::MergeFn" and s[2][3] == "Old" for _, _, s in x.assigns()), "egglog function building MergeFn::Old")
    seen = {}
    for c in f.calls:
        if c.p.endswith("PartialEq>::eq") and len(c.args) == 2 and c.args[1][0] == "k":
            lit = c.args[1][1].strip('"')
            if lit not in ("old", "new"):
                continue
            for sw, tr, fl in result_branches(f, c):
                reg = region_of_branch(f, sw, tr) | {tr}
                built = set()
                for i, j, s in f.assigns():
                    if i in reg and s[2][0] == "agg" and s[2][2] == "egglog_bridge::MergeFn":
                        built.add(s[2][3])
                seen[lit] = built
    for lit, want in (("old", "Old"), ("new", "New")):
        if lit not in seen:
            chk.missing(R, f'comparison of the variable name with "{lit}"')
            continue
        chk.judge(seen[lit] == {want}, R, f"egglog::EGraph::translate_expr_to_mergefn:{lit}",
                  f'"{lit}" builds MergeFn::{want}', f'"{lit}" builds {sorted(seen[lit])} instead of MergeFn::{want}', f.loc)
    # and the bridge interprets Old as cur, New as new
    g = prog.need_role("egglog_bridge::ResolvedMergeFn::run", lambda x: x.crate == "egglog_bridge" and x.locals[0].endswith("::Value") and
                       bool(match_arms(prog, x, "egglog_bridge::ResolvedMergeFn")), "bridge function matching on ResolvedMergeFn and returning a Value")
    arms = match_arms(prog, g, "egglog_bridge::ResolvedMergeFn")
    if arms:
        sw, amap, _, _ = arms[0]
        vp = value_params(g)
        for v, want_param in (("Old", vp[0]), ("New", vp[1])):
            if v not in amap:
                chk.missing(R, f"{v} arm of ResolvedMergeFn::run")
                continue
            reg = arm_region(g, sw, amap[v])
            vals = set()
            for i, j, s in g.assigns():
                if i in reg and s[1] == [0, []]:
                    from ..facts import rv_operands
                    for o in rv_operands(s[2]):
                        vals |= g.origins(o)
            chk.judge(vals == {("param", want_param, ())}, R, f"egglog_bridge::ResolvedMergeFn::run:{v}",
                      f"{v} arm returns parameter #{want_param} ({g.varnames.get(want_param)})",
                      f"{v} arm returns {fmt_atoms(vals)}", g.loc)
    # MergeFn::resolve maps Old->Old, New->New
    h = prog.need("egglog_bridge::MergeFn::resolve")
    arms = match_arms(prog, h, "egglog_bridge::MergeFn")
    if arms:
        sw, amap, _, _ = arms[0]
        for v in ("Old", "New", "AssertEq", "UnionId"):
            if v not in amap:
                chk.missing(R, f"{v} arm of MergeFn::resolve")
                continue
            reg = arm_region(h, sw, amap[v])
            built = {s[2][3] for i, j, s in h.assigns() if i in reg and s[2][0] == "agg" and s[2][2] == "egglog_bridge::ResolvedMergeFn"}
            chk.judge(built == {v}, R, f"egglog_bridge::MergeFn::resolve:{v}",
                      f"MergeFn::{v} resolves to ResolvedMergeFn::{v}", f"MergeFn::{v} resolves to {sorted(built)}", h.loc)


def run(chk, prog, tier):
    chk.explanation = EXPLANATION
    chk.assumptions = [
        "rustc nightly MIR construction and trait resolution",
        "unwind paths are not part of 'every path'",
        "merge call sites are recognised by type: Fn*::call* with argument tuple (.., &[Value], &[Value], &mut Vec<Value>)",
    ]
    check_merge_stored(chk, prog)
    check_insert_after_probe(chk, prog)
    check_change_reported(chk, prog)
    check_scratch_cleared(chk, prog)
    from . import c16
    c16.check_row_retired(chk, prog)
    check_merge_args(chk, prog)
    check_merge_callback(chk, prog)
    check_nomerge(chk, prog)
    check_old_new(chk, prog)
