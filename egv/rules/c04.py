"""C04 — the database is canonical and consistent after every command.

Decides:
  R-REBUILD     (shared with C01) over all normal exits, including Err exits
  R-WHO-MERGES  who may call the Database operations that merge staged writes or rebuild: every such
                caller outside egglog_core_relations is a rebuilder, carries (and discharges or
                propagates) the R-REBUILD obligation, or is the listed clear_table wrapper; crate
                `egglog` calls none of them directly
  R-CANON-READS  the id-returning bridge entry points canonicalise through the union-find after flushing
"""
import json
import os

from . import rebuild_common as rc
from .c01 import check_rebuild

EXPLANATION = (
    "Static clause of C04 decided on MIR: every return path (Ok or Err) of every bridge function that merges staged writes "
    "re-canonicalises or proves the union-find did not grow; only rebuilders and obligated functions may call the merging / "
    "rebuilding Database operations; crate egglog has no direct access to them; and the structural half of 'at most one live row "
    "per key is visible': a key gets a hash entry only after a probe miss (R-INSERT-AFTER-PROBE), every superseded row is marked "
    "stale AND counted (R-STALE-COUNT / R-STALE-COUNTED — observers skip the stale check when the counter reads 0), observers read raw "
    "storage only under stale_rows == 0 (R-RAW-ROWS). Not decided: key uniqueness over all histories, container hash-consing and "
    "serialisation agreement (data)."
)

MUTATORS = ("merge_all", "run_rule_set", "merge_table", "merge_simple", "apply_rebuild", "refresh_rows_for_values",
            "rebuild_containers", "clear_table")
DB = "egglog_core_relations::free_join::Database::"

# callers allowed to call a mutator without being a rebuilder / obligated function
ALLOWED = {
    ("egglog_bridge::EGraph::clear_table", "clear_table"):
        "clearing a function table cannot create a non-canonical id (rows are removed, the union-find is untouched)",
}


def check_who_merges(chk, prog, model):
    R = chk.rule("R-WHO-MERGES", "outside egglog_core_relations, Database::{merge_all, run_rule_set, merge_table, merge_simple, apply_rebuild, "
                 "refresh_rows_for_values, rebuild_containers, clear_table} may only be called by a rebuilder, by a function under the "
                 "R-REBUILD obligation, or by a listed wrapper; never from crate egglog")
    st = model.obligations()
    n = 0
    for f in prog.lib_fns(["egglog_bridge", "egglog", "egglog_ast", "egglog_reports"]):
        for c in f.calls:
            if not (c.p.startswith(DB) and c.p[len(DB):] in MUTATORS):
                continue
            op = c.p[len(DB):]
            n += 1
            root = f.root or f.name
            key = f"{root}:calls-{op}"
            if f.crate != "egglog_bridge":
                chk.bad(R, key, f"crate {f.crate} calls Database::{op} directly (only the bridge may merge or rebuild)", c.loc)
                continue
            if root in model.rebuilders:
                chk.ok(R, key, f"rebuilder calls Database::{op}", c.loc)
            elif (root, op) in ALLOWED:
                chk.ok(R, key, f"listed: {ALLOWED[(root, op)]}", c.loc)
            elif st.get(f.name, {}).get("status") in ("discharged", "propagates"):
                chk.ok(R, key, f"caller is under the R-REBUILD obligation ({st[f.name]['status']})", c.loc)
            elif st.get(f.name, {}).get("status") == "mixed":
                chk.ok(R, key, "caller is under the R-REBUILD obligation (violation reported by R-REBUILD)", c.loc)
            else:
                chk.bad(R, key, f"Database::{op} called from a function that is neither a rebuilder nor tracked by R-REBUILD", c.loc)
    chk.floor(R, n, 6, "bridge call sites of Database merge/rebuild operations (counted: merge_all, run_rule_set, apply_rebuild, refresh_rows_for_values, rebuild_containers, clear_table)")
    # privacy: the Database handle must not be reachable from crate egglog: no pub fn of the bridge returns &mut Database
    for f in prog.lib_fns(["egglog_bridge"]):
        if f.is_pub and f.kind != "closure" and "&mut egglog_core_relations::free_join::Database" in f.locals[0]:
            chk.bad(R, f"{f.name}:leaks-db", "public bridge function hands out &mut Database (callers could merge without rebuilding)", f.loc)


def check_canon_reads(chk, prog):
    R = chk.rule("R-CANON-READS", "bridge functions that flush and then return an id canonicalise it (get_canon_in_uf / union-find lookup) after the flush")
    f = prog.need("egglog_bridge::EGraph::add_term")
    fl = f.calls_to("EGraph::flush_updates")
    canon = f.calls_to("EGraph::get_canon_in_uf")
    ok = bool(fl and canon) and all(f.dominates(a.bb, b.bb) for a in fl for b in canon)
    ret = f.origins([0, []])
    ok = ok and any(a[0] == "call" and a[1].endswith("get_canon_in_uf") for a in ret) and all(a[0] == "call" for a in ret)
    chk.judge(ok, R, "egglog_bridge::EGraph::add_term", "add_term returns get_canon_in_uf(id) computed after flush_updates",
              "add_term may return an id that was not canonicalised after the flush", f.loc)


def check_merge_fixpoint(chk, prog):
    R = chk.rule("R-MERGE-FIXPOINT", "Database::merge_all returns only after the notification list was found empty: merge_simple's loop exits only when notification_list.reset() "
                 "returned nothing, and merge_all's loop exits only through merge_simple (merging one table can stage writes into another)")
    from .rebuild_common import natural_loops, loop_exits
    from ..util import edge_relation
    ms = prog.need("egglog_core_relations::free_join::Database::merge_simple")
    ok = False
    for h, body in natural_loops(ms):
        if not any(c.bb in body and c.p.endswith("NotificationList::reset") for c in ms.calls):
            continue
        exits = loop_exits(ms, body)
        good = bool(exits)
        for (u, v) in exits:
            r = edge_relation(ms, u, v)
            # exit when `to_merge.is_empty()` is true
            if not (r and r.get("truth") is True and r["desc"][0] == "call" and r["desc"][1].p.endswith("::is_empty")):
                good = False
        ok = ok or good
    chk.judge(ok, R, "Database::merge_simple", "loops until notification_list.reset() returns an empty batch",
              "merge_simple can return while tables notified during the merge are still pending", ms.loc)
    ma = prog.need("egglog_core_relations::free_join::Database::merge_all")
    ok2 = False
    for h, body in natural_loops(ma):
        if not any(c.bb in body and c.p.endswith("NotificationList::reset") for c in ma.calls):
            continue
        exits = loop_exits(ma, body)
        simple = {c.bb for c in ma.calls if c.p.endswith("Database::merge_simple")}
        # every way out of the loop goes through merge_simple (inside the loop, or right after the `break`)
        ok2 = bool(exits) and bool(simple) and all(
            any(ma.dominates(sb, u) for sb in simple if sb in body) or rc.RebuildModel._path_to_ret(ma, [v], simple, set()) is None for (u, v) in exits)
    chk.judge(ok2, R, "Database::merge_all", "the merge loop is only left after merge_simple drained the notification list",
              "merge_all can leave its loop without draining the notification list through merge_simple", ma.loc)


def check_predict_stages(chk, prog):
    """`(F x)` in a rule action whose row does not exist yet: the execution state hands out a fresh id (or default) AND stages the row
    that makes the id mean something. A path that returns the fresh value without staging leaves a dangling id."""
    R = chk.rule("R-PREDICT-STAGES", "in egglog_core_relations::action, the function that builds the row for a missing key (draws fresh ids from Counters::inc) calls "
                 "MutationBuffers::stage_insert with that very row and sets the `changed` flag on every path before returning it; both predict_val and predict_col reach it through "
                 "the prediction cache on their miss path (after the table lookup), so one key gets one fresh id per iteration")
    hs = [h for h in prog.lib_fns(["egglog_core_relations"]) if "action::" in h.name and any(c.p.endswith("Counters::inc") for c in h.calls)
          and any(c.p.endswith("MutationBuffers::stage_insert") for c in h.calls)]
    chk.floor(R, len(hs), 1, "row constructor for missing keys (ExecutionState::construct_new_row)")
    cands = [prog.fns.get(h.root) if h.kind == "closure" and h.root else h for h in hs]
    for h in hs:
        st = [c for c in h.calls if c.p.endswith("MutationBuffers::stage_insert")]
        on_all = any(c.bb == 0 for c in st) or not any(h.term(b)[0] == "ret" for b in h.reach_avoiding_from_entry({c.bb for c in st}))
        # the staged row is the returned row
        ret = h.origins([0, []])
        staged = set()
        for c in st:
            staged |= h.origins(c.args[2]) if len(c.args) > 2 else set()
        same = bool(ret & staged)
        # changed := true on every path
        flags = {i for i, j, s2 in h.assigns() if s2[2][0] == "use" and s2[2][1][0] == "k" and s2[2][1][1].startswith("true") and "*" in [e for e in s2[1][1] if isinstance(e, str)]}
        flag_all = bool(flags) and not any(h.term(b)[0] == "ret" for b in h.reach_avoiding_from_entry(flags))
        # only the constructor used from merge functions carries a change flag (a captured / passed `&mut bool`); rule actions are counted when merged
        root_fn = prog.fns.get(h.root) if h.kind == "closure" and h.root else h
        has_flag = root_fn is not None and any(t.startswith("&mut bool") for t in root_fn.locals[1:root_fn.argc + 1])
        if not has_flag:
            flag_all = True
        chk.judge(on_all and same and flag_all, R, f"{h.root or h.name}:stage-on-every-path", "the fresh row is staged, flagged as a change and returned",
                  "a row for a missing key can be returned (handing a fresh id to the caller) without being staged for insertion, or without marking the state as changed: the id "
                  "dangles / the iteration reports no change", h.loc)
    # both predictors use the cache with the constructor
    n = 0
    for name in ("predict_val", "predict_col"):
        g = prog.fns.get(f"egglog_core_relations::action::ExecutionState::{name}")
        if g is None:
            continue
        n += 1
        gets = [c for c in g.calls if c.p.endswith("::get_row") or c.p.endswith("::get_row_column")]
        cache = [c for c in g.calls if c.p.endswith("PredictedVals::get_val")]
        uses_ctor = any(any(cc.p == cands[0].name for cc in h.calls) for h in prog.region(g)) if cands and cands[0] is not None else False
        ok = bool(gets) and bool(cache) and uses_ctor and all(g.dominates(x.bb, c.bb) for x in gets for c in cache)
        chk.judge(ok, R, f"ExecutionState::{name}", "table lookup first, then the per-iteration prediction cache, whose miss path builds and stages the row",
                  f"{name} no longer goes table lookup -> prediction cache -> construct-and-stage: two lookups of one missing key in an iteration can get two different fresh ids", g.loc)
    chk.floor(R, n, 2, "predict_val / predict_col")


def run(chk, prog, tier):
    chk.explanation = EXPLANATION
    chk.assumptions = [
        "rustc nightly MIR construction and trait resolution",
        "unwind (panic) paths are not part of 'every path'",
        "error exits inside the rebuilder itself are exempt (a failed plan build aborts the rebuild)",
    ]
    model = rc.RebuildModel(prog)
    check_rebuild(chk, prog, model)
    check_who_merges(chk, prog, model)
    check_canon_reads(chk, prog)
    check_merge_fixpoint(chk, prog)
    check_predict_stages(chk, prog)
    # containers are part of the database: hash-consing and its index must stay consistent through every rebuild variant
    from . import c14
    c14.check_siblings(chk, prog)
    c14.check_container_indexed(chk, prog)
    # one live row per key, as seen by every observer
    from . import c05, c16
    c05.check_insert_after_probe(chk, prog)
    c16.check_stale_count(chk, prog)
    c16.check_stale_counted(chk, prog)
    c16.check_row_retired(chk, prog)
    c16.check_raw_rows(chk, prog)
