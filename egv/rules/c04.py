"""C04 — the database is canonical and consistent after every command.

Decides:
  R-REBUILD     (shared with C01) over all normal exits, including Err exits
  R-WHO-MERGES  who may call the Database operations that merge staged writes or rebuild: every such
                caller outside egglog_core_relations is a rebuilder, carries (and discharges or
                propagates) the R-REBUILD obligation, or is the listed clear_table wrapper; crate
                `egglog` calls none of them directly
  R-CANON-READS  the id-returning bridge entry points canonicalise through the union-find after flushing
"""
import json
import os

from . import rebuild_common as rc
from .c01 import check_rebuild

EXPLANATION = (
    "Static clause of C04 decided on MIR: every return path (Ok or Err) of every bridge function that merges staged writes "
    "re-canonicalises or proves the union-find did not grow; only rebuilders and obligated functions may call the merging / "
    "rebuilding Database operations; crate egglog has no direct access to them; and the structural half of 'at most one live row "
    "per key is visible': a key gets a hash entry only after a probe miss (R-INSERT-AFTER-PROBE), every superseded row is marked "
    "stale AND counted (R-STALE-COUNT / R-STALE-COUNTED — observers skip the stale check when the counter reads 0), observers read raw "
    "storage only under stale_rows == 0 (R-RAW-ROWS). Not decided: key uniqueness over all histories, container hash-consing and "
    "serialisation agreement (data)."
)

MUTATORS = ("merge_all", "run_rule_set", "merge_table", "merge_simple", "apply_rebuild", "refresh_rows_for_values",
            "rebuild_containers", "clear_table")
DB = "egglog_core_relations::free_join::Database::"

# callers allowed to call a mutator without being a rebuilder / obligated function
ALLOWED = {
    ("egglog_bridge::EGraph::clear_table", "clear_table"):
        "clearing a function table cannot create a non-canonical id (rows are removed, the union-find is untouched)",
}


def check_who_merges(chk, prog, model):
    R = chk.rule("R-WHO-MERGES", "outside egglog_core_relations, Database::{merge_all, run_rule_set, merge_table, merge_simple, apply_rebuild, "
                 "refresh_rows_for_values, rebuild_containers, clear_table} may only be called by a rebuilder, by a function under the "
                 "R-REBUILD obligation, or by a listed wrapper; never from crate egglog")
    st = model.obligations()
    n = 0
    for f in prog.lib_fns(["egglog_bridge", "egglog", "egglog_ast", "egglog_reports"]):
        for c in f.calls:
            if not (c.p.startswith(DB) and c.p[len(DB):] in MUTATORS):
                continue
            op = c.p[len(DB):]
            n += 1
            root = f.root or f.name
            key = f"{root}:calls-{op}"
            if f.crate != "egglog_bridge":
                chk.bad(R, key, f"crate {f.crate} calls Database::{op} directly (only the bridge may merge or rebuild)", c.loc)
                continue
            if root in model.rebuilders:
                chk.ok(R, key, f"rebuilder calls Database::{op}", c.loc)
            elif (root, op) in ALLOWED:
                chk.ok(R, key, f"listed: {ALLOWED[(root, op)]}", c.loc)
            elif st.get(f.name, {}).get("status") in ("discharged", "propagates"):
                chk.ok(R, key, f"caller is under the R-REBUILD obligation ({st[f.name]['status']})", c.loc)
            elif st.get(f.name, {}).get("status") == "mixed":
                chk.ok(R, key, "caller is under the R-REBUILD obligation (violation reported by R-REBUILD)", c.loc)
            else:
                chk.bad(R, key, f"Database::{op} called from a function that is neither a rebuilder nor tracked by R-REBUILD", c.loc)
    chk.floor(R, n, 6, "bridge call sites of Database merge/rebuild operations (counted: merge_all, run_rule_set, apply_rebuild, refresh_rows_for_values, rebuild_containers, clear_table)")
    # privacy: the Database handle must not be reachable from crate egglog: no pub fn of the bridge returns &mut Database
    for f in prog.lib_fns(["egglog_bridge"]):
        if f.is_pub and f.kind != "closure" and "&mut egglog_core_relations::free_join::Database" in f.locals[0]:
            chk.bad(R, f"{f.name}:leaks-db", "public bridge function hands out &mut Database (callers could merge without rebuilding)", f.loc)


def check_canon_reads(chk, prog):
    R = chk.rule("R-CANON-READS", "bridge functions that flush and then return an id canonicalise it (get_canon_in_uf / union-find lookup) after the flush")
    f = prog.need("egglog_bridge::EGraph::add_term")
    fl = f.calls_to("EGraph::flush_updates")
    canon = f.calls_to("EGraph::get_canon_in_uf")
    ok = bool(fl and canon) and all(f.dominates(a.bb, b.bb) for a in fl for b in canon)
    ret = f.origins([0, []])
    ok = ok and any(a[0] == "call" and a[1].endswith("get_canon_in_uf") for a in ret) and all(a[0] == "call" for a in ret)
    chk.judge(ok, R, "egglog_bridge::EGraph::add_term", "add_term returns get_canon_in_uf(id) computed after flush_updates",
              "add_term may return an id that was not canonicalised after the flush", f.loc)


def check_merge_fixpoint(chk, prog):
    R = chk.rule("R-MERGE-FIXPOINT", "Database::merge_all returns only after the notification list was found empty: merge_simple's loop exits only when notification_list.reset() "
                 "returned nothing, and merge_all's loop exits only through merge_simple (merging one table can stage writes into another)")
    from .rebuild_common import natural_loops, loop_exits
    from ..util import edge_relation
    ms = prog.need("egglog_core_relations::free_join::Database::merge_simple")
    ok = False
    for h, body in natural_loops(ms):
        if not any(c.bb in body and c.p.endswith("NotificationList::reset") for c in ms.calls):
            continue
        exits = loop_exits(ms, body)
        good = bool(exits)
        for (u, v) in exits:
            r = edge_relation(ms, u, v)
            # exit when `to_merge.is_empty()` is true
            if not (r and r.get("truth") is True and r["desc"][0] == "call" and r["desc"][1].p.endswith("::is_empty")):
                good = False
        ok = ok or good
    chk.judge(ok, R, "Database::merge_simple", "loops until notification_list.reset() returns an empty batch",
              "merge_simple can return while tables notified during the merge are still pending", ms.loc)
    ma = prog.need("egglog_core_relations::free_join::Database::merge_all")
    ok2 = False
    for h, body in natural_loops(ma):
        if not any(c.bb in body and c.p.endswith("NotificationList::reset") for c in ma.calls):
            continue
        exits = loop_exits(ma, body)
        simple = {c.bb for c in ma.calls if c.p.endswith("Database::merge_simple")}
        # every way out of the loop goes through merge_simple (inside the loop, or right after the `break`)
        ok2 = bool(exits) and bool(simple) and all(
            any(ma.dominates(sb, u) for sb in simple if sb in body) or rc.RebuildModel._path_to_ret(ma, [v], simple, set()) is None for (u, v) in exits)
    chk.judge(ok2, R, "Database::merge_all", "the merge loop is only left after merge_simple drained the notification list",
              "merge_all can leave its loop without draining the notification list through merge_simple", ma.loc)


def run(chk, prog, tier):
    chk.explanation = EXPLANATION
    chk.assumptions = [
        "rustc nightly MIR construction and trait resolution",
        "unwind (panic) paths are not part of 'every path'",
        "error exits inside the rebuilder itself are exempt (a failed plan build aborts the rebuild)",
    ]
    model = rc.RebuildModel(prog)
    check_rebuild(chk, prog, model)
    check_who_merges(chk, prog, model)
    check_canon_reads(chk, prog)
    check_merge_fixpoint(chk, prog)
    # one live row per key, as seen by every observer
    from . import c05, c16
    c05.check_insert_after_probe(chk, prog)
    c16.check_stale_count(chk, prog)
    c16.check_stale_counted(chk, prog)
    c16.check_row_retired(chk, prog)
    c16.check_raw_rows(chk, prog)
