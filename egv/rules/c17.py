"""C17 — union-find: same class iff connected, representative is the minimum id.

Decides (writer discipline, both structures):
  R-UF-WRITERS  who writes UnionFind.parents (frozen set) and what they store: identity in reset/reserve,
                min-under-max of two find() results in union, an ancestor (a value loaded from parents)
                in find; find_naive stores nothing
  R-UF-CAS      concurrent: all mutations are CAS in {merge, find_impl} (+ initialisers); merge CASes the
                max root from itself to the min root and retries on failure; find_impl only CASes in
                values loaded from the buffer
  R-MIN         (C01) bridge merge functions agree with the union-find's choice
"""
from ..util import check_selects, whole_defs, edge_relation, fmt_atoms, variant_is, guards
from . import min_common as mc
from .rebuild_common import natural_loops

EXPLANATION = (
    "Static clause of C17 decided on MIR: 'the representative is the smallest id' and 'compression never changes the partition' as "
    "writer-discipline invariants (only the larger of two roots is ever re-pointed, and only at the smaller root; compression only "
    "stores values loaded from the parent array), for the sequential and the concurrent structure, plus agreement with the engine's "
    "merge functions. Not decided: partition correctness over all sequences, linearizability under all interleavings."
)

UF = "egglog_union_find::UnionFind"
CUF = "egglog_union_find::concurrent::uf::ConcurrentUnionFind"
AI = "egglog_union_find::concurrent::atomic_int::AtomicInt::"

SEQ_WRITERS = {
    UF + "::reset": "re-initialises every slot to its own index",
    UF + "::reserve": "appends identity slots",
    UF + "::union": "links the larger root under the smaller",
    UF + "::find": "path halving: stores a grandparent",
}


def parents_writers(prog):
    """functions that mutably borrow or assign UnionFind.parents"""
    out = {}
    for f in prog.lib_fns(["egglog_union_find"]):
        for i, j, s in f.assigns():
            places = [s[1]]
            if s[2][0] == "ref" and s[2][1] == "mut":
                places.append(s[2][2])
            elif s[2][0] == "rawptr":
                places.append(s[2][2])
            for pl in places:
                names = [e[2] for e in pl[1] if not isinstance(e, str) and e[0] == "f"]
                if "parents" in names and UF in f.locals[pl[0]] and "concurrent" not in f.locals[pl[0]]:
                    if pl is s[1] and names[-1] != "parents" and False:
                        continue
                    if pl is s[1] or s[2][0] != "ref" or s[2][1] == "mut":
                        out.setdefault(f.root or f.name, []).append((f, i, j, s))
    return out


def stores_into_parents(f):
    """(stmt, value_operand, index_call) for `self.parents[idx] = v` and pushes"""
    res = []
    for i, j, s in f.assigns():
        dst = s[1]
        if "*" in [e for e in dst[1] if isinstance(e, str)] and not [e for e in dst[1] if not isinstance(e, str)]:
            d = f.single_def(dst[0])
            if d and d[3] == "call" and d[4].p.endswith("IndexMut>::index_mut"):
                base = f.origins(d[4].args[0])
                if any(a[0] == "param" and a[1] == 1 and a[2] and a[2][0] == "parents" for a in base):
                    res.append(("store", i, j, s, s[2][1] if s[2][0] == "use" else None, d[4]))
            else:
                # *v = ...  where v iterates over parents (iter_mut)
                at = f.origins([dst[0], []])
                if any(a[0] == "param" and a[1] == 1 and a[2] and a[2][0] == "parents" for a in at) or \
                   any(a[0] == "call" and "iter" in a[1].lower() for a in at):
                    res.append(("iter-store", i, j, s, s[2][1] if s[2][0] == "use" else None, None))
    for c in f.calls:
        if c.p == "alloc::vec::Vec::push":
            base = f.origins(c.args[0])
            if any(a[0] == "param" and a[1] == 1 and a[2] and a[2][0] == "parents" for a in base):
                res.append(("push", c.bb, None, None, c.args[1], c))
    return res


def check_uf_writers(chk, prog):
    R = chk.rule("R-UF-WRITERS", "UnionFind.parents is written only by {reset, reserve, union, find}; reset/reserve store from_usize(slot index); union stores "
                 "min(find a, find b) at slot max(find a, find b); find stores only values loaded from parents; find_naive stores nothing")
    ws = parents_writers(prog)
    roots = set(ws)
    extra = roots - set(SEQ_WRITERS)
    chk.judge(not extra, R, "writers-of-UnionFind.parents", f"writers of parents: {sorted(roots)}",
              f"unexpected writer(s) of UnionFind.parents: {sorted(extra)}", None)
    for w in SEQ_WRITERS:
        if w not in roots:
            chk.missing(R, f"expected writer {w} no longer writes parents")
    # reset / reserve: identity
    for name in (UF + "::reset", UF + "::reserve"):
        f = prog.need(name)
        st = stores_into_parents(f)
        ok = bool(st)
        for kind, i, j, s, val, c in st:
            at = f.origins(val) if val else set()
            if not (at and all(a[0] == "call" and a[1].endswith("NumericId::from_usize") for a in at)):
                ok = False
        chk.judge(ok, R, name + ":identity", "stores from_usize(i) for the slot index i", "stores something other than the slot's own index", f.loc)
    mc.check_uf_union(chk, prog, R)
    # find: stored value is an ancestor
    f = prog.need(UF + "::find")
    st = stores_into_parents(f)
    ok = bool(st)
    why = "no store found"
    for kind, i, j, s, val, c in st:
        at = f.origins(val) if val else set()
        if not (at and all(a[0] == "param" and a[1] == 1 and a[2][:1] == ("parents",) for a in at)):
            ok = False
            why = f"find stores a value originating from {fmt_atoms(at)} (not loaded from parents)"
    chk.judge(ok, R, UF + "::find:compression", "path compression stores only values loaded from parents (an ancestor)", why, f.loc)
    # the loop of find exits only when cur == parent
    ex_ok = False
    for h, body in natural_loops(f):
        for u in body:
            for v in f.succ[u]:
                if v not in body and v in f.pdom:
                    r = edge_relation(f, u, v)
                    if r and r.get("rel") == "Eq":
                        ex_ok = True
                    else:
                        ex_ok = False
    chk.judge(ex_ok, R, UF + "::find:exit", "find returns only when cur == parents[cur] (a root)", "find can return a non-root", f.loc)
    g = prog.need(UF + "::find_naive")
    chk.judge(UF + "::find_naive" not in roots, R, UF + "::find_naive", "find_naive performs no store", "find_naive writes parents", g.loc)


def reaching_is_call(f, local, at_bb, callee_suffix):
    """the definition of `local` reaching at_bb is the result of a call to callee (all other
    definitions happen before that call)"""
    defs = whole_defs(f, local)
    good = []
    for (bb, idx, kind, payload) in defs:
        if kind == "call" and payload.p.endswith(callee_suffix):
            good.append(bb)
        elif kind == "a" and payload[0] == "use":
            at = f.origins(payload[1])
            if at and all(a[0] == "call" and a[1].endswith(callee_suffix) for a in at):
                good.append(bb)
    good = [b for b in good if f.dominates(b, at_bb)]
    if not good:
        return False
    g = good[-1]
    for (bb, idx, kind, payload) in defs:
        if bb in good:
            continue
        if not f.dominates(bb, g) or bb == at_bb:
            return False
    return True


def check_uf_cas(chk, prog):
    R = chk.rule("R-UF-CAS", "concurrent union-find: AtomicInt::cas/store are called only from merge, find_impl and the Buffer initialisers; merge CASes slot max(l,r) "
                 "from max(l,r) to min(l,r) with l, r fresh find_impl results and retries on failure; find_impl CASes in only values loaded from the buffer")
    allowed_cas = {CUF + "::merge", CUF + "::find_impl"}
    n = 0
    for f in prog.lib_fns(["egglog_union_find"]):
        root = f.root or f.name
        if root.startswith("<") and "AtomicInt>" in root:
            continue  # the trait impls themselves
        for c in f.calls:
            if c.d == AI + "cas":
                n += 1
                chk.judge(root in allowed_cas, R, f"{root}:cas", "CAS in an allowed function", f"unexpected CAS on the parent array in {root}", c.loc)
            elif c.d == AI + "store":
                chk.judge(False, R, f"{root}:store", "", f"plain store into the atomic parent array in {root} (must be CAS)", c.loc)
    chk.floor(R, n, 2, "AtomicInt::cas call sites")
    # merge
    root = prog.need(CUF + "::merge")
    g = None
    for h in prog.region(root):
        if h.calls_to(AI + "cas"):
            g = h
    if g is None:
        chk.missing(R, "CAS inside ConcurrentUnionFind::merge")
    else:
        c = g.calls_to(AI + "cas")[0]
        slot, expected, new = c.args
        mins = [x for x in g.calls if x.p.endswith("cmp::min") or x.p.endswith("Ord>::min")]
        probs = []
        if not mins:
            # compare idiom: derive A,B from the comparison guarding the cas
            probs.append("no min selection found")
            A = B = set()
        else:
            A, B = g.origins(mins[0].args[0]), g.origins(mins[0].args[1])
        from .min_common import _operand_defs
        pn, nn = check_selects(g, _operand_defs(g, new), A, B, "min")
        pe, ne = check_selects(g, _operand_defs(g, expected), A, B, "max")
        probs += [f"new value: {p}" for p in pn] + [f"expected value: {p}" for p in pe]
        if nn == 0:
            probs.append("new value is not the min of the two roots")
        if ne == 0:
            probs.append("expected value is not the max of the two roots (CAS could succeed on a non-root)")
        # slot index = as_usize(max)
        sa = g.origins(slot)
        idx_ok = False
        for i, j, s in g.assigns():
            if s[1][0] == slot[1][0] and s[2][0] == "ref":
                idxs = [e for e in s[2][2][1] if not isinstance(e, str) and e[0] == "i"]
                if idxs:
                    d = g.single_def(idxs[0][1])
                    if d and d[3] == "call" and d[4].d == AI + "as_usize":
                        pi, ni = check_selects(g, _operand_defs(g, d[4].args[0]), A, B, "max")
                        idx_ok = not pi and ni > 0
        if not idx_ok:
            probs.append("CASed slot is not the max of the two roots")
        # roots are fresh find_impl results
        for m in mins[:1]:
            for a in m.args:
                src = a
                d = g.single_def(a[1][0])
                if d and d[3] == "a" and d[4][0] == "use":
                    src = d[4][1]
                if not reaching_is_call(g, src[1][0], c.bb, "find_impl"):
                    probs.append("an operand of the link is not a fresh find_impl result")
        # failure retries: the Err arm of the CAS result leads back into the loop (to a find_impl)
        retry = False
        for b in g.live:
            for s in g.succ[b]:
                r = edge_relation(g, b, s)
                if r and variant_is(r, 1):
                    at = g.origins(r["place"])
                    if any(x[0] == "call" and x[2] == c.bb for x in at):
                        reach = {s} | g.reach(s)
                        if any(x.bb in reach for x in g.calls_to("find_impl")) and not any(g.term(x)[0] == "ret" for x in [s]):
                            retry = True
        if not retry:
            probs.append("a failed CAS does not loop back to re-find")
        chk.judge(not probs, R, CUF + "::merge:link", "merge: cas(slot = max root, expected = max root, new = min root), retry on failure",
                  "; ".join(probs), c.loc)
    # find_impl
    fi = prog.need(CUF + "::find_impl")
    cs = fi.calls_to(AI + "cas")
    ok = bool(cs)
    why = "no cas"
    for c in cs:
        for a in c.args[1:]:
            at = fi.origins(a)
            if not (at and all(x[0] == "call" and x[1] == AI + "load" for x in at)):
                ok = False
                why = f"find_impl CASes with a value originating from {fmt_atoms(at)} (not loaded from the buffer)"
    chk.judge(ok, R, CUF + "::find_impl:compression", "find_impl only CASes between values it loaded from the buffer (ancestors)", why, fi.loc)
    ret = fi.origins([0, []])
    chk.judge(bool(ret) and all(x[0] == "call" and x[1] == AI + "load" for x in ret), R, CUF + "::find_impl:result",
              "find_impl returns a value loaded from the buffer", f"find_impl returns {fmt_atoms(ret)}", fi.loc)


def check_same_set(chk, prog):
    R = chk.rule("R-UF-SAMESET", "ConcurrentUnionFind::same_set answers `false` only after re-reading the parent slot of one of the two find_impl results and finding it is still its own "
                 "parent (a root that is not the other root), answers `true` only when the two find_impl results are equal, and otherwise re-finds both and loops")
    root = prog.need(CUF + "::same_set")
    g = None
    for h in prog.region(root):
        if len(h.calls_to("find_impl")) >= 2:
            g = h
    if g is None:
        chk.missing(R, "closure of ConcurrentUnionFind::same_set that calls find_impl")
        return
    finds = {c.bb for c in g.calls_to("find_impl")}
    falses, trues = [], []
    for (bb, idx, dproj, kind, payload) in g.defs.get(0, []):
        if kind == "a" and payload[0] == "use" and payload[1][0] == "k":
            (falses if payload[1][1].startswith("false") else trues).append(bb)
    probs = []
    if not falses or not trues:
        probs.append("same_set does not return both constants")

    def is_find(atoms):
        return bool(atoms) and all(a[0] == "call" and a[1].endswith("::find_impl") for a in atoms)
    for b in falses:
        ok = False
        for gd in guards(g, b):
            if gd.get("rel") != "Eq":
                continue
            oa, ob = g.origins(gd["a"]), g.origins(gd["b"])
            for x, y in ((oa, ob), (ob, oa)):
                if x and all(a[0] == "call" and a[1] == AI + "load" for a in x) and is_find(y):
                    # the loaded slot is indexed by the same find result
                    for a in x:
                        ld = g.call_at(a[2])
                        # receiver: &buf[as_usize(l)]
                        rec = ld.args[0]
                        for i, j, s2 in g.assigns():
                            if s2[1][0] == rec[1][0] and s2[2][0] == "ref":
                                idxs = [e for e in s2[2][2][1] if not isinstance(e, str) and e[0] == "i"]
                                for e in idxs:
                                    d = g.single_def(e[1])
                                    if d and d[3] == "call" and d[4].d == AI + "as_usize" and is_find(g.origins(d[4].args[0])):
                                        ok = True
        if not ok:
            probs.append("`false` is returned without re-checking that a find result is still a root (two ids merged between the two finds are reported as different sets)")
    for b in trues:
        ok = False
        for gd in guards(g, b):
            if gd.get("rel") == "Eq" and is_find(g.origins(gd["a"])) and is_find(g.origins(gd["b"])):
                ok = True
        if not ok:
            probs.append("`true` is returned without the two find_impl results being equal")
    # the not-equal, not-root path re-finds both before testing again
    nes = [c for c in g.calls if c.p.endswith(("PartialEq::ne", "PartialEq::eq")) and is_find(g.origins(c.args[0])) and is_find(g.origins(c.args[1]))]
    loop_ok = any(len([fb for fb in finds if fb in g.reach(c.bb) and c.bb in g.reach(fb)]) >= 2 for c in nes)
    if not loop_ok:
        probs.append("the retry path does not re-find both elements")
    chk.judge(not probs, R, CUF + "::same_set", "same_set: true on equal roots, false only on a re-checked root, otherwise re-find", "; ".join(probs), g.loc)


def run(chk, prog, tier):
    chk.explanation = EXPLANATION
    chk.assumptions = ["rustc nightly MIR construction", "Buffer::with_access's resize protocol relies on ReadOptimizedLock (C19 R-LOCK)"]
    check_uf_writers(chk, prog)
    check_uf_cas(chk, prog)
    check_same_set(chk, prog)
    R = chk.rule("R-MIN", "bridge merge functions return min(a,b) of the ids they union: same representative as the union-find")
    mc.check_bridge_min(chk, prog, R)
