"""R-SCAN-EXTENT (C01 / C06 / C16): row-id ranges over a table's storage are bounded by the physical
extent of the row buffer, never by the live-row count."""
from ..util import deep_sources

SWT = "egglog_core_relations::table::SortedWritesTable"
PHYS = ("egglog_core_relations::table::Rows::next_row", "egglog_core_relations::row_buffer::RowBuffer::len")
LIVE = (SWT + "::len", f"<{SWT} as egglog_core_relations::table_spec::Table>::len", "egglog_core_relations::table_spec::Table::len",
        "egglog_core_relations::table_spec::WrappedTable::len")


def in_scope(prog, f):
    root = f.root or f.name
    return root.startswith(SWT + "::") or root.startswith(f"<{SWT} as ")


def classify(srcs):
    phys = live = False
    for (fn, a) in srcs:
        if a[0] == "call" and a[1] in PHYS:
            phys = True
        if a[0] == "call" and a[1] in LIVE:
            live = True
        if a[0] == "param" and a[2] and "stale_rows" in a[2]:
            live = True
    return phys, live


def check_scan_extent(chk, prog, R=None):
    R = R or chk.rule("R-SCAN-EXTENT", "in SortedWritesTable code, every row-id bound (Range end, RowId::from_usize argument, OffsetRange::new bound) that is derived from the table's size "
                      "derives from the physical extent (Rows::next_row / RowBuffer::len), never from the live-row count (Table::len, stale_rows): stale rows sit between live ones, "
                      "so a scan bounded by the live count misses the newest rows")
    n_phys = 0
    for f in prog.lib_fns(["egglog_core_relations"]):
        if not in_scope(prog, f):
            continue
        sites = []
        for i, j, s in f.assigns():
            rv = s[2]
            if rv[0] == "agg" and rv[2] in ("core::ops::range::Range", "core::ops::range::RangeInclusive") and len(rv[4]) >= 2:
                sites.append(("range-end", rv[4][1], s[3]))
        for c in f.calls:
            if c.p.endswith("RowId as egglog_numeric_id::NumericId>::from_usize") or (c.p.endswith("NumericId>::from_usize") and "RowId" in c.p):
                sites.append(("RowId::from_usize", c.args[0], c.line))
            elif c.p.endswith("OffsetRange::new"):
                for a in c.args:
                    sites.append(("OffsetRange::new", a, c.line))
        for kind, op, line in sites:
            srcs = deep_sources(prog, f, op)
            phys, live = classify(srcs)
            if not phys and not live:
                continue
            if phys and not live:
                n_phys += 1
            root = f.root or f.name
            chk.judge(not live, R, f"{root}:{kind}{'@closure' if f.kind == 'closure' else ''}",
                      "row-id bound derives from the physical extent",
                      "row-id bound derives from the live-row count (Table::len / stale_rows): rows at the physical end of the buffer are never visited",
                      f"{f.file}:{line}")
    chk.floor(R, n_phys, 4, "row-id bounds derived from the physical extent in SortedWritesTable code")
