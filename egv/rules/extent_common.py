"""R-SCAN-EXTENT (C01 / C06 / C16): row-id ranges over a table's storage are bounded by the physical
extent of the row buffer, never by the live-row count."""
from ..util import deep_sources

SWT = "egglog_core_relations::table::SortedWritesTable"
PHYS = ("egglog_core_relations::table::Rows::next_row", "egglog_core_relations::row_buffer::RowBuffer::len")
LIVE = (SWT + "::len", f"<{SWT} as egglog_core_relations::table_spec::Table>::len", "egglog_core_relations::table_spec::Table::len",
        "egglog_core_relations::table_spec::WrappedTable::len")


def in_scope(prog, f):
    root = f.root or f.name
    return root.startswith(SWT + "::") or root.startswith(f"<{SWT} as ")


def classify(srcs):
    phys = live = False
    for (fn, a) in srcs:
        if a[0] == "call" and a[1] in PHYS:
            phys = True
        if a[0] == "call" and a[1] in LIVE:
            live = True
        if a[0] == "param" and a[2] and "stale_rows" in a[2]:
            live = True
    return phys, live


def check_scan_extent(chk, prog, R=None):
    R = R or chk.rule("R-SCAN-EXTENT", "in SortedWritesTable code, every row-id bound (Range end, RowId::from_usize argument, OffsetRange::new bound) that is derived from the table's size "
                      "derives from the physical extent (Rows::next_row / RowBuffer::len), never from the live-row count (Table::len, stale_rows): stale rows sit between live ones, "
                      "so a scan bounded by the live count misses the newest rows")
    n_phys = 0
    for f in prog.lib_fns(["egglog_core_relations"]):
        if not in_scope(prog, f):
            continue
        sites = []
        for i, j, s in f.assigns():
            rv = s[2]
            if rv[0] == "agg" and rv[2] in ("core::ops::range::Range", "core::ops::range::RangeInclusive") and len(rv[4]) >= 2:
                sites.append(("range-end", rv[4][1], s[3]))
        for c in f.calls:
            if c.p.endswith("RowId as egglog_numeric_id::NumericId>::from_usize") or (c.p.endswith("NumericId>::from_usize") and "RowId" in c.p):
                sites.append(("RowId::from_usize", c.args[0], c.line))
            elif c.p.endswith("OffsetRange::new"):
                for a in c.args:
                    sites.append(("OffsetRange::new", a, c.line))
        for kind, op, line in sites:
            srcs = deep_sources(prog, f, op)
            phys, live = classify(srcs)
            if not phys and not live:
                continue
            if phys and not live:
                n_phys += 1
            root = f.root or f.name
            chk.judge(not live, R, f"{root}:{kind}{'@closure' if f.kind == 'closure' else ''}",
                      "row-id bound derives from the physical extent",
                      "row-id bound derives from the live-row count (Table::len / stale_rows): rows at the physical end of the buffer are never visited",
                      f"{f.file}:{line}")
    chk.floor(R, n_phys, 4, "row-id bounds derived from the physical extent in SortedWritesTable code")


CLAMP_PASS = ("cmp::min", "cmp::max", "Ord>::min", "Ord>::max", "NumericId>::index", "NumericId::index", "NumericId>::from_usize", "NumericId::from_usize",
              "NumericId>::new", "usize::min", "usize::max")


def clamp_sources(prog, f, operand, depth=0, seen=None):
    """like deep_sources, but arithmetic is NOT looked through: only copies, phis, min/max, id<->usize conversions and closure captures.
    What comes back is the set of values the operand can be *equal to*, not merely computed from."""
    if seen is None:
        seen = set()
    out = set()
    if depth > 10:
        return out
    for a in f.origins(operand):
        key = (f.name, a)
        if key in seen:
            continue
        seen.add(key)
        if a[0] == "call" and any(a[1].endswith(p) for p in CLAMP_PASS):
            c = f.call_at(a[2])
            for o in c.args:
                out |= clamp_sources(prog, f, o, depth + 1, seen)
        elif a[0] == "param" and a[1] == 1 and f.kind == "closure" and a[2] and a[2][0].isdigit():
            par = prog.fns.get(f.parent)
            done = False
            if par is not None:
                for (bi, bj, name, ops) in par.closures_created():
                    if name == f.name and int(a[2][0]) < len(ops):
                        out |= clamp_sources(prog, par, ops[int(a[2][0])], depth + 1, seen)
                        done = True
            if not done:
                out.add(key)
        else:
            out.add(key)
    return out


def check_chunk_covers(chk, prog, R=None):
    R = R or chk.rule("R-CHUNK-COVERS", "where SortedWritesTable code walks its row storage in chunks — a (start, end) pair of row ids handed to Rebuilder::rebuild_buf / OffsetRange::new / a "
                      "Range, with a non-constant start and an end derived from the physical extent — the end of a chunk can be the extent itself: the extent reaches the end operand "
                      "through copies, min/max clamps and id conversions only, not only through arithmetic. A partition whose last chunk ends at a value merely *computed from* the "
                      "extent (e.g. n * (extent / n)) drops the remainder rows")
    n = 0
    for f in prog.lib_fns(["egglog_core_relations"]):
        if not in_scope(prog, f):
            continue
        pairs = []
        for c in f.calls:
            if c.d.endswith("Rebuilder::rebuild_buf") and len(c.args) >= 4:
                pairs.append((c.args[2], c.args[3], c.line, "rebuild_buf"))
            elif c.p.endswith("OffsetRange::new") and len(c.args) >= 2:
                pairs.append((c.args[0], c.args[1], c.line, "OffsetRange::new"))
        for i, j, s in f.assigns():
            rv = s[2]
            if rv[0] == "agg" and rv[2] == "core::ops::range::Range" and len(rv[4]) >= 2:
                pairs.append((rv[4][0], rv[4][1], s[3], "range"))
        for (st, en, line, kind) in pairs:
            ssrc = deep_sources(prog, f, st)
            if not ssrc or all(a[0] == "const" for (_n, a) in ssrc):
                continue  # [0, end): not a chunk
            phys, live = classify(deep_sources(prog, f, en))
            if not phys:
                continue
            # the start itself must vary per chunk: it derives from an iterator item or a closure parameter
            if not any(a[0] == "param" or (a[0] == "call" and a[1].endswith("::next")) for (_n, a) in ssrc):
                continue
            n += 1
            cphys, _ = classify(clamp_sources(prog, f, en))
            root = f.root or f.name
            chk.judge(cphys, R, f"{root}:{kind}-end{'@closure' if f.kind == 'closure' else ''}", "a chunk's end can equal the physical extent (clamped, not only computed)",
                      "the end of a row-id chunk is only computed from the physical extent by arithmetic and never clamped to it: unless the extent divides evenly the last rows "
                      "of the table are in no chunk and are never rebuilt", f"{f.file}:{line}")
    chk.floor(R, n, 2, "chunked row-id walks in SortedWritesTable (serial and parallel arm of rebuild_nonincremental)")
