"""C16 — the table store behaves like a keyed map with timestamp-ordered scans.

Decides (structural):
  R-RAW-ROWS        observers of SortedWritesTable read raw row storage only under stale_rows == 0;
                    the Rows wrappers return Some only for non-stale rows
  R-INDEX-PROTOCOL  Index::refresh clears on a major-version change, records the version it merged up to;
                    merge_all / merge_simple record every notified table in `touched` and reset the index
                    caches of every touched table; generation has a frozen set of writers and every
                    row-compacting function bumps it; Database::merge_table has no caller
  R-INSERT-AFTER-PROBE (C05) one live row per key
  R-CLEAR-RESETS    for each Table impl: fields written by the mutation path are reset by clear()
"""
from ..util import guards, edge_relation, fmt_atoms, variant_is, trace_back, match_arms, arm_region
from . import c05, extent_common
from .rebuild_common import RebuildModel, desc_local

EXPLANATION = (
    "Static clause of C16 decided on MIR: stale rows are unreachable from every observer (raw storage reads are guarded by "
    "stale_rows == 0, wrappers test is_stale), caches are invalidated by the version/notification protocol on every mutating "
    "path, a key gets a new hash entry only after a lookup miss, and clear() resets every field the mutation path writes. "
    "Not decided: model equivalence of the table with a plain map over all operation sequences."
)

SWT = "egglog_core_relations::table::SortedWritesTable"
RAW = ("egglog_core_relations::row_buffer::RowBuffer::get_row", "egglog_core_relations::row_buffer::RowBuffer::get_row_unchecked",
       "egglog_core_relations::row_buffer::RowBuffer::iter", "egglog_core_relations::row_buffer::RowBuffer::raw_rows",
       "egglog_core_relations::row_buffer::RowBuffer::get_row_mut")


def stale_zero_guard(f, bb):
    for g in guards(f, bb):
        if g.get("rel") == "Eq":
            for x, y in ((g["a"], g["b"]), (g["b"], g["a"])):
                xa = f.origins(x)
                if any(a[0] == "param" and a[2][-2:] == ("data", "stale_rows") for a in xa) or \
                   any(a[0] == "param" and a[2] and a[2][-1] == "stale_rows" for a in xa):
                    if y[0] == "k" and y[1].startswith("0"):
                        return True
    return False


def guarded_with_parents(prog, f, bb, pred):
    """pred holds at bb in f, or at the block creating f (closure) in its parent, transitively"""
    h, b = f, bb
    while True:
        if pred(h, b):
            return True
        if h.kind != "closure":
            return False
        par = prog.fns.get(h.parent)
        if par is None:
            return False
        cb = [bi for (bi, bj, name, ops) in par.closures_created() if name == h.name]
        if not cb:
            return False
        h, b = par, cb[0]


def check_raw_rows(chk, prog):
    R = chk.rule("R-RAW-ROWS", "in the &self (observer) methods of SortedWritesTable and their closures, a read of raw row storage (RowBuffer::get_row / get_row_unchecked / iter / "
                 "raw_rows on self.data.data) is control dependent on self.data.stale_rows == 0 (closures inherit the control dependence of the block that builds them)")
    n_obs = n_raw = 0
    for f in prog.lib_fns(["egglog_core_relations"]):
        root = prog.fns.get(f.root) if f.kind == "closure" else f
        if root is None:
            continue
        rn = root.name
        if not (rn.startswith(SWT + "::") or rn.startswith(f"<{SWT} as egglog_core_relations::table_spec::Table>::")):
            continue
        if root.argc < 1 or not root.locals[1].startswith("&" + SWT) or root.locals[1].startswith("&mut"):
            continue
        if f is root:
            n_obs += 1
        for c in f.calls:
            if c.p not in RAW:
                continue
            at = f.origins(c.args[0])
            # receiver is the table's own storage: self.data.data (or a capture of self)
            own = any(a[0] == "param" and ("data" in a[2] or a[1] == 1) for a in at)
            if not own:
                continue
            n_raw += 1
            ok = guarded_with_parents(prog, f, c.bb, stale_zero_guard)
            chk.judge(ok, R, f"{rn}:raw-read:{c.p.rsplit('::', 1)[1]}{'@closure' if f.kind == 'closure' else ''}",
                      "raw storage read only on the stale_rows == 0 fast path",
                      "observer reads raw row storage without the stale_rows == 0 guard: stale (deleted/superseded) rows become visible", c.loc)
    chk.floor(R, n_obs, 15, "observer (&self) methods of SortedWritesTable")
    chk.floor(R, n_raw, 2, "raw storage reads in observers (scan_generic and scan_generic_bounded fast paths)")
    # wrappers
    for name in ("egglog_core_relations::table::Rows::get_row", "egglog_core_relations::table::Rows::get_row_unchecked"):
        f = prog.need(name)
        ok = False
        bad = False
        for i, j, s in f.assigns():
            if s[1] == [0, []] and s[2][0] == "agg" and s[2][3] == "Some":
                g_ok = False
                for g in guards(f, i):
                    if g.get("truth") is False and g["desc"][0] == "call" and g["desc"][1].p.endswith("Value::is_stale"):
                        g_ok = True
                if g_ok:
                    ok = True
                else:
                    bad = True
        chk.judge(ok and not bad, R, name, "returns Some(row) only when !row[0].is_stale()",
                  "wrapper can return a stale row", f.loc)


def check_index_protocol(chk, prog):
    R = chk.rule("R-INDEX-PROTOCOL", "Index::refresh: clear() iff major version differs, before any merge; updated_to := version read at entry on every merging path. "
                 "merge_all/merge_simple: every notification_list.reset() result is added to `touched`; both index caches of every touched table are reset. "
                 "generation: frozen writer set, compaction implies a bump. merge_table: no callers")
    f = prog.need("egglog_core_relations::hash_index::Index::refresh")
    clears = [c for c in f.calls if c.d.endswith("IndexBase::clear")]
    merges = [c for c in f.calls if c.d.endswith(("IndexBase::merge_parallel", "IndexBase::rebuild_full")) or c.p.endswith("Index::refresh_serial")]
    ok_clear = False
    for c in clears:
        for g in guards(f, c.bb):
            if g.get("rel") == "Ne":
                pa = f.origins(g["a"]) | f.origins(g["b"])
                if any(a[-1] and a[-1][-1] == "major" for a in pa if a[0] in ("call", "param", "local")):
                    ok_clear = True
            if g.get("truth") is True and g["desc"][0] == "val":
                # `let is_full = a != b; if is_full {..}`
                at = f.origins(g["desc"][1])
                for a in at:
                    if a[0] == "call" and a[1].endswith("PartialEq::ne"):
                        ca = f.call_at(a[2])
                        pa = f.origins(ca.args[0]) | f.origins(ca.args[1])
                        if any(x[-1] and x[-1][-1] == "major" for x in pa if x[0] in ("call", "param", "local")):
                            ok_clear = True
    chk.judge(bool(clears) and ok_clear, R, "hash_index::Index::refresh:clear", "index cleared exactly when the table's major version changed",
              "Index::refresh does not clear the index on a major-version change (rows of a compacted/cleared table stay indexed)", f.loc)
    rf = [c for c in merges if c.d.endswith("rebuild_full")]
    def full_flags(bb):
        out = set()
        for g in guards(f, bb):
            if "rel" in g and "call" in g:
                # the same major-version comparison (one call site) tested with the same polarity
                pa = f.origins(g["a"]) | f.origins(g["b"])
                if any(a[-1] and a[-1][-1] == "major" for a in pa if a[0] in ("call", "param", "local")):
                    out.add(("cmp", g["call"].bb, g["rel"]))
            if g.get("truth") is True and g["desc"][0] in ("val", "call"):
                l = desc_local(f, g["desc"])
                if l is not None and len([d for d in f.defs.get(l, []) if not d[2]]) == 1:
                    out.add(l)
        return out
    # same single-assignment flag guards both the clear and the bulk rebuild (or clear dominates it)
    ok_full = bool(rf) and all(any(f.dominates(cl.bb, c.bb) or (full_flags(cl.bb) & full_flags(c.bb)) for cl in clears) for c in rf)
    chk.judge(ok_full, R, "hash_index::Index::refresh:rebuild_full", "rebuild_full only runs right after clear()",
              "rebuild_full may run on a non-empty index", f.loc)
    # updated_to store
    stores = []
    for i, j, s in f.assigns():
        pj = [e for e in s[1][1] if not isinstance(e, str)]
        if s[1][0] == 1 and pj and pj[-1][2] == "updated_to":
            va = f.origins(s[2][1]) if s[2][0] == "use" else set()
            if va and all(a[0] == "call" and a[1].endswith("::version") for a in va):
                stores.append(i)
    path = RebuildModel._path_to_ret(f, [c.target for c in merges if c.target is not None], set(stores), set())
    # no path records a version without first deciding whether the index has to be cleared: every store to updated_to (not only the
    # ones that follow a merge) is dominated by the major-version comparison
    all_stores = [i for i, j, s2 in f.assigns() if s2[1][0] == 1 and [e for e in s2[1][1] if not isinstance(e, str)][-1:] and
                  [e for e in s2[1][1] if not isinstance(e, str)][-1][2] == "updated_to"]
    cmps = []
    for c in f.calls:
        if c.p.endswith(("PartialEq::ne", "PartialEq>::ne", "PartialEq::eq", "PartialEq>::eq")) and len(c.args) == 2:
            pa = f.origins(c.args[0]) | f.origins(c.args[1])
            if any(a[-1] and a[-1][-1] == "major" for a in pa if a[0] in ("call", "param", "local")):
                cmps.append(c.bb)
    for i, j, s2 in f.assigns():
        if s2[2][0] == "bin" and s2[2][1] in ("Ne", "Eq"):
            pa = f.origins(s2[2][2]) | f.origins(s2[2][3])
            if any(a[-1] and a[-1][-1] == "major" for a in pa if a[0] in ("call", "param", "local")):
                cmps.append(i)
    ok_dom = bool(all_stores) and bool(cmps) and all(any(f.dominates(cb, sb) for cb in cmps) for sb in all_stores)
    chk.judge(ok_dom, R, "hash_index::Index::refresh:version-recorded-after-major-test", "the index never records a table version without having compared major versions first",
              "Index::refresh can record the table's current version on a path that never compared major versions (and so never cleared the index): after the table was cleared or "
              "compacted the index keeps entries pointing at row ids of the previous generation and is considered up to date", f.loc)
    chk.judge(bool(stores) and bool(merges) and path is None, R, "hash_index::Index::refresh:updated_to",
              "updated_to := table.version() after every merge path", "a path merges rows into the index without recording the version it is now up to date with", f.loc)
    # the version stored is the one read at entry (before the scan)
    if stores:
        vcalls = [c for c in f.calls if c.p.endswith("::version")]
        ok_v = all(all(f.dominates(v.bb, m.bb) for m in merges) for v in vcalls)
        chk.judge(ok_v, R, "hash_index::Index::refresh:version-first", "the version is read before rows are scanned",
                  "version is read after scanning (rows added in between would be skipped)", f.loc)
    # merge_all / merge_simple
    for name in ("egglog_core_relations::free_join::Database::merge_all", "egglog_core_relations::free_join::Database::merge_simple"):
        g = prog.need(name)
        resets = [c for c in g.calls if c.p.endswith("NotificationList::reset")]
        exts = [c for c in g.calls if c.p.endswith("::extend")]
        for k, r in enumerate(resets):
            flows = False
            for e in exts:
                ea = g.origins(e.args[1])
                ra = g.origins(e.args[0])
                is_touched = any((a[0] == "local" and g.varnames.get(a[1]) == "touched") or (a[0] == "param" and g.varnames.get(a[1]) == "touched") or
                                 (a[0] == "call" and "IndexSet" in a[1]) for a in ra)
                if any(a[0] == "call" and a[2] == r.bb for a in ea) and is_touched:
                    flows = True
            chk.judge(flows, R, f"{name}:reset->touched#{k}", "tables returned by notification_list.reset() are recorded in `touched`",
                      "a batch of notified tables is merged without being recorded in `touched` (their cached indexes are never reset)", r.loc)
        if not resets:
            chk.missing(R, f"notification_list.reset() in {name}")
    ma = prog.need("egglog_core_relations::free_join::Database::merge_all")
    reset_fields = set()
    for h in prog.region(ma):
        if h.kind != "closure":
            continue
        if any(c.p.endswith("ResettableOnceLock::reset") for c in h.calls):
            for (bi, bj, nm, ops) in prog.fns[h.parent].closures_created():
                if nm == h.name:
                    par = prog.fns[h.parent]
                    cc = par.call_at(bi)
                    if cc is not None:
                        for a in par.origins(cc.args[0]):
                            if a[-1] and a[0] in ("call", "param", "local"):
                                for fld in ("indexes", "column_indexes"):
                                    if fld in a[-1]:
                                        reset_fields.add(fld)
    chk.judge(reset_fields == {"indexes", "column_indexes"}, R, "Database::merge_all:reset-caches",
              "both index caches of every touched table are reset", f"index caches reset: {sorted(reset_fields)} (expected indexes and column_indexes)", ma.loc)
    # generation writers
    writers = {}
    for g in prog.lib_fns(["egglog_core_relations"]):
        for i, j, s in g.assigns():
            pj = [e for e in s[1][1] if not isinstance(e, str)]
            if pj and pj[-1][0] == "f" and pj[-1][2] == "generation" and SWT in g.locals[s[1][0]]:
                writers.setdefault(g.root or g.name, g)
    allowed = {f"<{SWT} as egglog_core_relations::table_spec::Table>::clear", SWT + "::rehash", SWT + "::parallel_rehash"}
    chk.judge(set(writers) == allowed, R, "writers-of-SortedWritesTable.generation", f"generation written by {sorted(writers)}",
              f"writers of generation are {sorted(writers)}, expected {sorted(allowed)}", None)
    # compaction implies bump
    n = 0
    for g in prog.lib_fns(["egglog_core_relations"]):
        root = g.root or g.name
        if not root.startswith(SWT):
            continue
        compacts = [c for c in g.calls if c.p.endswith("Rows::remove_stale") or c.p.endswith("RowBuffer::remove_stale") or c.p.endswith("SortedWritesTable::rehash_impl")]
        swaps = [c for c in g.calls if c.p == "core::mem::swap" and any(a[0] == "param" and "scratch" in a[2] for x in c.args for a in g.origins(x))]
        for c in compacts + swaps:
            if g.name.endswith("rehash_impl"):
                continue
            n += 1
            bumps = [i for i, j, s in g.assigns() if [e for e in s[1][1] if not isinstance(e, str)][-1:] and [e for e in s[1][1] if not isinstance(e, str)][-1][2] == "generation"]
            ok = any(g.dominates(b, c.bb) for b in bumps)
            chk.judge(ok, R, f"{root}:compaction-bumps-generation", "row ids are only remapped after the generation was bumped",
                      "rows are compacted (row ids change) without bumping the generation: indexes keep stale row ids", c.loc)
    chk.floor(R, n, 2, "row-compaction sites (rehash, parallel_rehash)")
    callers = prog.direct_callers("egglog_core_relations::free_join::Database::merge_table")
    chk.judge(not callers, R, "Database::merge_table:no-callers", "merge_table (which resets no index cache) is unused",
              f"merge_table is called from {[g.name for g, _ in callers]} but does not reset the merged table's cached indexes", None)


def fields_touched(prog, adt_name, f, depth=4, seen=None):
    """fields of self (param 1) that f writes: assigned, mutably borrowed, or (for interior-mutable
    handle fields) used at all; follows calls to other &mut-self methods of the same type"""
    if seen is None:
        seen = set()
    if f.name in seen or depth < 0:
        return set()
    seen.add(f.name)
    adt = prog.adts.get(adt_name)
    imut = set()
    names = set()
    if adt:
        for fd in adt["variants"][0]["fields"]:
            names.add(fd["name"])
            if any(not h["freeze"] and not h["dyn"] for h in fd["handles"]):
                imut.add(fd["name"])
    out = set()
    region = prog.region(f)
    for g in region:
        self_locals = {1} if g is f else set()
        for i, j, s in g.assigns():
            places = [(s[1], "w")]
            rv = s[2]
            if rv[0] == "ref":
                places.append((rv[2], "m" if rv[1] == "mut" else "r"))
            elif rv[0] == "rawptr":
                places.append((rv[2], "m"))
            elif rv[0] == "use" and rv[1][0] in ("c", "m"):
                places.append((rv[1][1], "r"))
            for pl, mode in places:
                flds = [e[2] for e in pl[1] if not isinstance(e, str) and e[0] == "f"]
                if not flds:
                    continue
                # rooted at self?
                at = g.origins([pl[0], []])
                rooted = (g is f and pl[0] == 1) or any(a[0] == "param" and a[1] == 1 and (g is f or True) for a in at)
                if not rooted:
                    continue
                # first field belonging to the ADT
                first = None
                if g is f and pl[0] == 1:
                    first = flds[0]
                else:
                    for a in at:
                        if a[0] == "param" and a[1] == 1 and g is f and a[2]:
                            first = a[2][0]
                    if first is None and flds[0] in names and adt_name in g.locals[pl[0]]:
                        first = flds[0]
                if first is None or first not in names:
                    continue
                if mode in ("w", "m") or first in imut:
                    out.add(first)
        for c in g.calls:
            callee = prog.fns.get(c.p)
            if callee is not None and callee.argc >= 1 and adt_name in callee.locals[1] and c.args and g is f:
                aa = g.origins(c.args[0])
                if any(a[0] == "param" and a[1] == 1 and not a[2] for a in aa):
                    out |= fields_touched(prog, adt_name, callee, depth - 1, seen)
    return out


def check_clear_resets(chk, prog):
    R = chk.rule("R-CLEAR-RESETS", "for every local `impl Table for X`: the fields of X written by X::merge (and the &mut-self helpers it calls) are also written by X::clear, "
                 "except listed exemptions (one reason each)")
    EXEMPT = {
        ("egglog_core_relations::table::SortedWritesTable", "rebuild_index"): "derived cache keyed by table version: refresh() rebuilds it from scratch after the generation bump in clear()",
        ("egglog_core_relations::table::SortedWritesTable", "subset_tracker"): "scratch statistics for plan heuristics, no row data",
        ("egglog_core_relations::uf::DisplacedTable", "changed"): "consumed and reset inside merge() itself",
        ("egglog_core_relations::table::SortedWritesTable", "generation"): "",
    }
    n = 0
    for im in prog.impls:
        if im["trait"] != "egglog_core_relations::table_spec::Table" or not im["self_adt"]:
            continue
        x = im["self_adt"]
        if x not in prog.adts or im["crate"] not in ("egglog_core_relations",):
            continue
        merge = next((prog.fns.get(m) for m in im["methods"] if m.endswith("::merge")), None)
        clear = next((prog.fns.get(m) for m in im["methods"] if m.endswith("::clear")), None)
        if merge is None or clear is None:
            continue
        n += 1
        w = fields_touched(prog, x, merge)
        c = fields_touched(prog, x, clear)
        # early-return guards in clear: every clear-write must not be skipped on a path where rows exist (not checked here)
        missing = sorted(fld for fld in w - c if (x, fld) not in EXEMPT)
        chk.judge(not missing, R, f"{x}:clear", f"clear() resets every field merge() writes ({sorted(w)}; cleared {sorted(c)})",
                  f"clear() leaves {missing} untouched although merge() writes them: state survives a clear", clear.loc, merge_writes=sorted(w), clear_writes=sorted(c))
    chk.floor(R, n, 2, "Table impls with merge and clear (SortedWritesTable, DisplacedTable)")


def run(chk, prog, tier):
    chk.explanation = EXPLANATION
    chk.assumptions = ["rustc nightly MIR construction", "unwind paths are not part of 'every path'"]
    check_raw_rows(chk, prog)
    check_index_protocol(chk, prog)
    c05.check_insert_after_probe(chk, prog)
    extent_common.check_scan_extent(chk, prog)
    extent_common.check_chunk_covers(chk, prog)
    check_fast_subset(chk, prog)
    check_offsets_monotone(chk, prog)
    check_stale_count(chk, prog)
    check_stale_counted(chk, prog)
    check_row_retired(chk, prog)
    check_merge_order(chk, prog)
    check_notify(chk, prog)
    check_clear_resets(chk, prog)
    from . import join_common, scan_common
    join_common.check_constraint_eval(chk, prog)
    scan_common.check_scan_batches(chk, prog, floor=13)
    from . import c06
    c06.check_index_siblings(chk, prog)


FAST_SUBSET_TABLE = {
    # constraint variant -> {result arm of binary_search_sort_val -> (low, high)}
    "EqConst": {"Ok": ("ok0", "ok1")},
    "LtConst": {"Ok": ("zero", "ok0"), "Err": ("zero", "err")},
    "GtConst": {"Ok": ("ok1", "end"), "Err": ("err", "end")},
    "LeConst": {"Ok": ("zero", "ok1"), "Err": ("zero", "err")},
    "GeConst": {"Ok": ("ok0", "end"), "Err": ("err", "end")},
}


def check_fast_subset(chk, prog, R=None):
    """timestamp-range subsets: `fast_subset` turns a constraint on the sort column into a row range using the
    (first row with the value, first row after it) pair of the binary search. Ge/Lt must split exactly at the
    first row with the value, Gt/Le exactly after the last one."""
    R = R or chk.rule("R-FAST-SUBSET", "SortedWritesTable::fast_subset: for binary_search_sort_val = Ok((found, bound)) / Err(next): EqConst -> [found, bound); LtConst -> [0, found) / [0, next); "
                      "LeConst -> [0, bound) / [0, next); GtConst -> [bound, end) / [next, end); GeConst -> [found, end) / [next, end)")
    name = f"<{SWT} as egglog_core_relations::table_spec::Table>::fast_subset"
    f = prog.need(name)
    arms = match_arms(prog, f, "egglog_core_relations::table_spec::Constraint")
    if not arms:
        chk.missing(R, "match on Constraint in fast_subset")
        return
    sw, amap, _, _ = arms[0]

    def classify(op):
        at = f.origins(op)
        kinds = set()
        for a in at:
            if a[0] == "call" and a[1].endswith("NumericId>::new"):
                c = f.call_at(a[2])
                if c.args and c.args[0][0] == "k" and c.args[0][1].startswith("0"):
                    kinds.add("zero")
                else:
                    kinds.add("?")
            elif a[0] == "call" and a[1].endswith("Rows::next_row"):
                kinds.add("end")
            elif a[0] == "call" and a[1].endswith("binary_search_sort_val"):
                p = a[3]
                if p[:1] == ("@Ok",):
                    kinds.add("ok" + p[-1] if p[-1] in ("0", "1") else "?")
                elif p[:1] == ("@Err",):
                    kinds.add("err")
                else:
                    kinds.add("?")
            else:
                kinds.add("?")
        return next(iter(kinds)) if len(kinds) == 1 else "?"

    n = 0
    for variant, want in FAST_SUBSET_TABLE.items():
        if variant not in amap:
            chk.missing(R, f"{variant} arm of fast_subset")
            continue
        reg = arm_region(f, sw, amap[variant])
        got = {}
        for c in f.calls:
            if c.bb in reg and c.p.endswith("OffsetRange::new"):
                # which arm of the search result?
                arm = None
                for g in guards(f, c.bb):
                    if "variant" in g:
                        pa = f.origins(g["place"])
                        if any(a[0] == "call" and a[1].endswith("binary_search_sort_val") for a in pa):
                            arm = "Ok" if variant_is(g, 0) else ("Err" if variant_is(g, 1) else None)
                got[arm] = (classify(c.args[0]), classify(c.args[1]))
        n += 1
        chk.judge(got == want, R, f"{SWT}::fast_subset:{variant}", f"{variant}: {want}",
                  f"{variant} maps the search result to {got}, expected {want}: rows stamped exactly with the constraint value end up on the wrong side", f.loc)
    chk.floor(R, n, 5, "constraint variants handled by fast_subset")


def check_offsets_monotone(chk, prog):
    R = chk.rule("R-OFFSETS-MONOTONE", "an entry is appended to a table's `offsets` (sort value -> first row) only when the sort value is strictly greater than the last recorded one, "
                 "or when `offsets` is empty: the binary search over timestamps relies on strictly increasing keys")
    n = 0
    for f in prog.lib_fns(["egglog_core_relations"]):
        root = f.root or f.name
        if not (root.startswith("egglog_core_relations::table::")):
            continue
        for c in f.calls:
            if c.p != "alloc::vec::Vec::push" or not c.args:
                continue
            ra = f.origins(c.args[0])
            is_off = any((a[0] == "param" and (("offsets" in a[2]) or f.varnames.get(a[1]) == "offsets")) for a in ra)
            if not is_off:
                continue
            n += 1
            ok = False
            if root == SWT + "::parallel_rehash":
                rebuilt = any(x.p == "alloc::vec::Vec::clear" and any(a[0] == "param" and "offsets" in a[2] for a in f.origins(x.args[0])) and f.dominates(x.bb, c.bb) for x in f.calls)
                chk.judge(rebuilt, R, f"{root}:offsets-rebuilt-from-old", "listed exception: offsets are cleared and rebuilt from the previous (strictly increasing) offsets, one entry per old entry with live rows",
                          "parallel_rehash pushes onto offsets without clearing them first", c.loc)
                continue
            for g in guards(f, c.bb):
                if g.get("rel") in ("Gt", "Lt"):
                    ok = True
                if "variant" in g and variant_is(g, 0):
                    pa = f.origins(g["place"])
                    if any(a[0] == "call" and (a[1].endswith("]::last") or a[1].endswith("Option::map")) for a in pa):
                        ok = True
            chk.judge(ok, R, f"{root}:offsets-push{'@closure' if f.kind == 'closure' else ''}", "offsets only grows by a strictly larger sort value (or from empty)",
                      "an offsets entry can be pushed without the strictly-greater test: duplicate or unsorted keys break timestamp-range subsets", c.loc)
    chk.floor(R, n, 5, "pushes onto offsets")


def check_stale_count(chk, prog):
    R = chk.rule("R-STALE-COUNT", "RowBuffer::set_stale / set_stale_shared return whether the row was ALREADY stale; wherever that result feeds a stale-row counter it is negated first "
                 "(`+= !was_stale as usize`) or the increment sits on the was-not-stale branch: stale_rows counts the rows newly marked stale (observers take their fast path on stale_rows == 0)")
    from ..util import region_of_branch
    n = 0
    for f in prog.lib_fns(["egglog_core_relations"]):
        for c in f.calls:
            if not (c.p.endswith("RowBuffer::set_stale") or c.p.endswith("::set_stale_shared")) or c.dest[1]:
                continue
            if f.locals[c.dest[0]] != "bool":
                continue
            # forward: (local, negated?)
            seen = {}
            work = [(c.dest[0], False)]
            counted = []   # (negated?, line)
            branched = []  # (switch bb, negated?)
            while work:
                l, neg = work.pop()
                if (l, neg) in seen:
                    continue
                seen[(l, neg)] = True
                for i, j, s in f.assigns():
                    rv = s[2]
                    ops = [o for o in rv_ops(rv) if o[0] in ("c", "m") and o[1][0] == l and not o[1][1]]
                    if not ops:
                        continue
                    if s[1][1]:
                        continue
                    if rv[0] == "use" or rv[0] == "cast":
                        work.append((s[1][0], neg))
                    elif rv[0] == "un" and rv[1] == "Not":
                        work.append((s[1][0], not neg))
                    elif rv[0] == "bin" and rv[1] in ("Add", "AddWithOverflow", "AddUnchecked"):
                        counted.append((neg, s[3]))
                for b in f.live:
                    t = f.term(b)
                    if t[0] == "switch" and t[1][0] in ("c", "m") and t[1][1][0] == l and not t[1][1][1]:
                        branched.append((b, neg))
                for c2 in f.calls:
                    # debug assertions etc. are irrelevant
                    pass
            if not counted and not branched:
                continue
            n += 1
            root = f.root or f.name
            bad = [line for (neg, line) in counted if not neg]
            for (b, neg) in branched:
                t = f.term(b)
                zero = [tb for v, tb in t[2] if v == "0"]
                if not zero:
                    continue
                was_stale_true = t[3] if not neg else zero[0]
                reg = region_of_branch(f, b, was_stale_true) | {was_stale_true}
                for i, j, s in f.assigns():
                    if i in reg and s[2][0] == "bin" and s[2][1] in ("Add", "AddWithOverflow"):
                        names = [e[2] for e in s[1][1] if not isinstance(e, str) and e[0] == "f"]
                        src = []
                        for o in rv_ops(s[2]):
                            if o[0] in ("c", "m"):
                                src += [e[2] for e in o[1][1] if not isinstance(e, str) and e[0] == "f"]
                        if "stale_rows" in names + src:
                            bad.append(s[3])
            chk.judge(not bad, R, f"{root}:{c.p.rsplit('::', 1)[-1]}-result{'@closure' if f.kind == 'closure' else ''}",
                      "the stale counter only counts rows that were not stale before",
                      f"the stale-row counter is advanced by `was already stale` instead of `newly stale` (line {bad}): stale_rows stays 0 after removals, observers keep their no-stale fast path and return removed rows",
                      c.loc)
    chk.floor(R, n, 2, "set_stale results feeding a stale counter (Rows::set_stale, parallel_delete)")


def check_stale_counted(chk, prog):
    """every row staled behind the table's back (ReadHandle/RowBuffer::set_stale_shared bypasses Rows::set_stale, which keeps
    stale_rows itself) is added to a counter that reaches stale_rows"""
    R = chk.rule("R-STALE-COUNTED", "every call of set_stale_shared (which stales a row without touching Rows.stale_rows) either feeds its `was stale` result into a stale counter "
                 "(R-STALE-COUNT decides the polarity) or is followed, on every path to the return of the function/closure, by an increment of a counter local (initialised to 0, "
                 "incremented by addition, flowing into the return value or into a stale_rows field). Otherwise stale_rows undercounts and observers keep the no-stale fast path")
    from ..facts import rv_operands
    n = 0
    for f in prog.lib_fns(["egglog_core_relations"]):
        sites = [c for c in f.calls if c.p.endswith("::set_stale_shared")]
        if not sites or f.name.endswith("::set_stale_shared"):
            continue
        # counters of f
        counters = {}
        for i, j, s in f.assigns():
            rv = s[2]
            if rv[0] == "bin" and rv[1] in ("Add", "AddWithOverflow", "AddUnchecked") and not s[1][1]:
                # tmp = Add(L, x); later L = tmp.0  — find L as the left operand local with a const-0 initialiser
                for o in rv_operands(rv)[:1]:
                    if o[0] in ("c", "m") and not o[1][1]:
                        L = o[1][0]
                        inits = [d for d in f.defs.get(L, []) if d[3] == "a" and d[4][0] == "use" and d[4][1][0] == "k" and d[4][1][1].startswith("0") and not d[2]]
                        if inits and f.locals[L] == "usize":
                            counters.setdefault(L, set()).add(i)
        # keep those flowing to the return value or to a stale_rows field
        ret_locals = set()
        for a in f.origins([0, []]):
            pass
        live_counters = {}
        for L, blocks in counters.items():
            flows = False
            # direct: _0 = L / _0 = (.., L, ..)
            for (bb, idx, dproj, kind, payload) in f.defs.get(0, []):
                if kind == "a":
                    for o in rv_operands(payload):
                        if o[0] in ("c", "m") and not o[1][1]:
                            src = o[1][0]
                            # follow copies back
                            seen = set()
                            work = [src]
                            while work:
                                x = work.pop()
                                if x in seen:
                                    continue
                                seen.add(x)
                                if x == L:
                                    flows = True
                                for d in f.defs.get(x, []):
                                    if d[3] == "a" and d[4][0] == "use" and d[4][1][0] in ("c", "m") and not d[4][1][1][1]:
                                        work.append(d[4][1][1][0])
            for i, j, s2 in f.assigns():
                names = [e[2] for e in s2[1][1] if not isinstance(e, str) and e[0] == "f"]
                if "stale_rows" in names:
                    flows = flows or any(o[0] in ("c", "m") and o[1][0] == L for o in rv_operands(s2[2]))
            if flows:
                live_counters[L] = blocks
        inc_blocks = set().union(*live_counters.values()) if live_counters else set()
        for c in sites:
            n += 1
            # (1) result feeds an addition (possibly through `!` and a cast)
            feeds = False
            work = [c.dest[0]] if not c.dest[1] else []
            seen = set()
            while work:
                l = work.pop()
                if l in seen:
                    continue
                seen.add(l)
                for i, j, s2 in f.assigns():
                    if s2[1][1]:
                        continue
                    ops = [o for o in rv_operands(s2[2]) if o[0] in ("c", "m") and o[1][0] == l and not o[1][1]]
                    if not ops:
                        continue
                    if s2[2][0] in ("use", "cast") or (s2[2][0] == "un" and s2[2][1] == "Not"):
                        work.append(s2[1][0])
                    elif s2[2][0] == "bin" and s2[2][1] in ("Add", "AddWithOverflow", "AddUnchecked"):
                        feeds = True
            ok = feeds
            if not ok:
                bad = False
                seenb = set()
                stack = [c.target] if c.target is not None else []
                while stack:
                    x = stack.pop()
                    if x in seenb or x in inc_blocks:
                        continue
                    seenb.add(x)
                    if f.term(x)[0] == "ret":
                        bad = True
                        break
                    stack.extend(f.succ[x])
                ok = bool(inc_blocks) and not bad
                if bool(inc_blocks) and bad:
                    # counting before staling is just as good: an increment that every path of the SAME loop iteration to the call passes
                    from .rebuild_common import natural_loops
                    loops = [(hh, bb_) for (hh, bb_) in natural_loops(f) if c.bb in bb_]
                    H, body = min(loops, key=lambda x: len(x[1])) if loops else (0, set(f.live))
                    for I in inc_blocks:
                        if I not in body or I == c.bb:
                            continue
                        seen2 = set()
                        st2 = [H]
                        reach = False
                        while st2:
                            x = st2.pop()
                            if x in seen2 or x == I:
                                continue
                            seen2.add(x)
                            if x == c.bb:
                                reach = True
                                break
                            st2.extend(sx for sx in f.succ[x] if sx in body and sx != H)
                        if not reach:
                            ok = True
            root = f.root or f.name
            arm = ""
            for g in guards(f, c.bb):
                if "truth" in g and g["desc"][0] == "call":
                    arm = ":merge-changed" if g["truth"] else ":merge-unchanged"
            chk.judge(ok, R, f"{root}:set_stale_shared{arm}{'@closure' if f.kind == 'closure' else ''}", "the staled row is counted towards stale_rows",
                      "a row is marked stale through the shared handle on a path that never advances the stale counter: stale_rows undercounts, and once it reads 0 "
                      "observers take the raw fast path and return superseded rows", c.loc)
    chk.floor(R, n, 3, "set_stale_shared call sites (parallel_delete, parallel_insert x2)")


def check_merge_order(chk, prog):
    R = chk.rule("R-MERGE-ORDER", "SortedWritesTable's Table::merge applies the staged removals before the staged insertions (do_delete dominates do_insert, both on every path, "
                 "maybe_rehash after both), and TableChange{removed, added} is built from their two results in that order. A rebuild stages `remove old key` and `insert canonical row` "
                 "in one batch; when the two keys coincide, applying the insertion first would delete the freshly inserted row")
    f = prog.need(f"<{SWT} as egglog_core_relations::table_spec::Table>::merge")
    de = [c for c in f.calls if c.p.endswith("::do_delete")]
    ins = [c for c in f.calls if c.p.endswith("::do_insert")]
    rh = [c for c in f.calls if c.p.endswith("::maybe_rehash")]
    ok = len(de) == 1 and len(ins) == 1 and bool(rh)
    if ok:
        ok = f.dominates(de[0].bb, ins[0].bb) and all(f.dominates(ins[0].bb, r.bb) for r in rh)
        # both on every path to the return
        def on_every_path(bb):
            return bb == 0 or not any(f.term(b)[0] == "ret" for b in f.reach_avoiding_from_entry({bb}))
        ok = ok and on_every_path(de[0].bb) and on_every_path(ins[0].bb)
        # TableChange fields
        agg = [(i, s2) for i, j, s2 in f.assigns() if s2[2][0] == "agg" and s2[2][1] == "adt" and str(s2[2][2]).endswith("TableChange")]
        if agg:
            adt = prog.adts.get(agg[0][1][2][2])
            names = [fd["name"] for fd in adt["variants"][0]["fields"]] if adt else []
            for k, o in enumerate(agg[0][1][2][4]):
                src = f.origins(o)
                want = de[0].bb if names[k] == "removed" else ins[0].bb if names[k] == "added" else None
                if want is not None:
                    ok = ok and bool(src) and all(a[0] == "call" and a[2] == want for a in src)
        else:
            ok = False
    chk.judge(ok, R, f"{SWT}::merge", "removals, then insertions, then the optional rehash; the change report is built from both results",
              "Table::merge of SortedWritesTable no longer applies removals before insertions (or skips one of them / reports the wrong result): a re-canonicalised row whose key did not "
              "change is deleted right after being inserted, or a change is reported as no change", f.loc)


def check_row_retired(chk, prog):
    """the parallel insert writes every incoming row to shared storage first and decides afterwards: when the key already has an
    entry, exactly one of the two physical rows survives, so the other one must be retired on every path"""
    R = chk.rule("R-ROW-RETIRED", "in every function that stales rows through the shared handle (set_stale_shared: rows are written to storage before the key is probed) and matches on "
                 "HashTable::entry(..): on every path through the Occupied arm a set_stale_shared call retires one of the two physical rows of the key (the previous row when the merged "
                 "row replaces it, the freshly written row when it does not) before control re-joins the Vacant arm's continuation")
    n = 0
    for f in prog.lib_fns(["egglog_core_relations"]):
        stale = {c.bb for c in f.calls if c.p.endswith("::set_stale_shared")}
        entries = [c for c in f.calls if c.p.endswith("HashTable::entry")]
        if not stale or not entries:
            continue
        for e in entries:
            sw = None
            for b in sorted(f.live):
                t = f.term(b)
                if t[0] == "switch":
                    d = f.describe_operand(t[1])
                    if d and d[0] == "disc" and d[1][0] == e.dest[0] and not d[1][1]:
                        sw = b
            if sw is None:
                continue
            succs = [sx for sx in f.succ[sw] if f.term(sx)[0] != "unreachable"]
            arm = {sx: ({sx} | f.reach_avoiding([sx], {sw})) for sx in succs}
            vins = {c.bb for c in f.calls if c.p.endswith("VacantEntry::insert")}
            vac = [sx for sx in succs if arm[sx] & vins and not any((arm[o] & vins) >= (arm[sx] & vins) and len(arm[o]) < len(arm[sx]) for o in succs if o != sx)]
            # the arm that reaches the insert first (the other arm reaches it only through the join / next iteration)
            vac = [sx for sx in vac if sx in vins or any(b in vins for b in arm[sx])]
            if len(vac) > 1:
                vac = [sx for sx in vac if sx in vins] or vac[:1]
            occ = [sx for sx in succs if sx not in vac]
            if len(vac) != 1 or len(occ) != 1:
                continue
            n += 1
            join = arm[vac[0]]
            bad = False
            seen = set()
            stack = [occ[0]]
            while stack:
                x = stack.pop()
                if x in seen or x in stale:
                    continue
                seen.add(x)
                if f.term(x)[0] == "ret" or x in join:
                    bad = True
                    break
                stack.extend(f.succ[x])
            root = f.root or f.name
            chk.judge(not bad, R, f"{root}:occupied-arm{'@closure' if f.kind == 'closure' else ''}", "one of the key's two physical rows is retired on every path of the collision arm",
                      "a key collision in the write-first insert path can leave both physical rows of the key live (neither the previous nor the freshly written row is staled on some "
                      "path): scans return two rows for one key and the superseded value stays visible", e.loc)
    chk.floor(R, n, 1, "write-first insert sites with an entry match (parallel_insert)")


def rv_ops(rv):
    from ..facts import rv_operands
    return rv_operands(rv)


def check_notify(chk, prog):
    R = chk.rule("R-NOTIFY", "a staged mutation is always announced to the next merge_all: MutationBuffers::stage_insert/stage_remove notify the same table id on every path; "
                 "Database::new_buffer notifies before handing out the buffer; run_on_tables notifies a table whenever its rebuild/refresh closure returned true (serial and parallel arm); "
                 "outside egglog_core_relations nobody obtains a buffer through Table::new_buffer (which does not notify)")
    from ..util import result_branches, region_of_branch
    for name in ("stage_insert", "stage_remove"):
        f = prog.need(f"egglog_core_relations::action::MutationBuffers::{name}")
        st = [c for c in f.calls if c.d.endswith(f"MutationBuffer::{name}")]
        nt = [c for c in f.calls if c.p.endswith("NotificationList::notify")]
        ok = bool(st) and bool(nt)
        if ok:
            path = RebuildModel._path_to_ret(f, [c.target for c in st if c.target is not None], {c.bb for c in nt}, set())
            ok = path is None
            tid = [i for i in range(1, f.argc + 1) if f.locals[i].endswith("TableId")]
            ok = ok and all(f.origins(c.args[1]) == {("param", tid[0], ())} for c in nt) if tid else False
        chk.judge(ok, R, f"MutationBuffers::{name}", "staging through an ExecutionState notifies the staged table",
                  "a row can be staged through an ExecutionState without notifying the table: merge_all never merges it", f.loc)
        g = prog.need(f"egglog_core_relations::action::ExecutionState::{name}")
        calls = g.calls_to(f"egglog_core_relations::action::MutationBuffers::{name}")
        chk.judge(bool(calls), R, f"ExecutionState::{name}", "delegates to MutationBuffers (which notifies)",
                  f"ExecutionState::{name} no longer stages through MutationBuffers::{name}", g.loc)
    nb = prog.need("egglog_core_relations::free_join::Database::new_buffer")
    nt = [c for c in nb.calls if c.p.endswith("NotificationList::notify")]
    ok = bool(nt) and all(any(nb.dominates(c.bb, r) for c in nt) for r in nb.ret_blocks)
    chk.judge(ok, R, "Database::new_buffer", "notifies the table before returning a buffer", "Database::new_buffer hands out a buffer without notifying", nb.loc)
    rt = prog.need("egglog_core_relations::free_join::Database::run_on_tables")
    n_sites = 0
    ok = True
    for g in prog.region(rt):
        for c in g.calls:
            if c.d.startswith("core::ops::function::Fn") and "::call" in c.d and len(c.ga) > 1 and "TableInfo" in c.ga[1]:
                n_sites += 1
                hit = False
                for sw, tr, fl in result_branches(g, c):
                    reg = region_of_branch(g, sw, tr) | {tr}
                    if any(x.bb in reg and x.p.endswith("NotificationList::notify") for x in g.calls):
                        hit = True
                ok = ok and hit
    chk.judge(ok and n_sites >= 2, R, "Database::run_on_tables", f"{n_sites} call sites of the per-table closure, each notifying the table when it returned true",
              f"run_on_tables does not notify a table whose rebuild/refresh reported staged changes (sites: {n_sites})", rt.loc)
    outside = []
    for f in prog.lib_fns(["egglog_bridge", "egglog"]):
        for c in f.calls:
            if c.d.endswith("table_spec::Table::new_buffer") or c.p.endswith("WrappedTable::new_buffer"):
                outside.append(f"{f.root or f.name} at {c.loc}")
    chk.judge(not outside, R, "Table::new_buffer:outside-core-relations", "bridge and egglog obtain buffers only through Database::new_buffer / ExecutionState",
              f"Table::new_buffer (which does not notify) is called outside egglog_core_relations: {outside}", None)
