"""debug helper: python3 -m egv.dump <fn-name-suffix> [facts-dir]"""
import json, sys
from . import facts, extract
def main():
    d = sys.argv[2] if len(sys.argv) > 2 else extract.ensure_facts("default")[0]
    p = facts.load(d)
    for f in p.find(sys.argv[1]) or [p.fns[n] for n in p.fns if sys.argv[1] in n][:3]:
        print("==", f.name, f.loc, "argc", f.argc)
        print("vars", {l: n for l, n in f.varnames.items()}, "upvars", f.upvars)
        for i, b in enumerate(f.blocks):
            if b["c"]:
                continue
            print(f"bb{i}")
            for s in b["s"]:
                print("    ", json.dumps(s))
            t = b["t"]
            if t[0] == "call":
                print("   T call", t[1]["p"], "| d=", t[1]["d"], "| r=", t[1]["r"], "args", json.dumps(t[2]), "->", json.dumps(t[3]), "bb", t[4], "L", t[6], t[7] or "")
            else:
                print("   T", json.dumps(t))
main()
