"""Check bookkeeping: rule instances, violations, known findings, evidence writer."""
import json
import os
import time

VERIF = os.path.dirname(os.path.dirname(os.path.abspath(__file__)))
KNOWN = os.path.join(VERIF, "known_findings.json")


def load_known():
    if not os.path.exists(KNOWN):
        return []
    with open(KNOWN) as fh:
        return json.load(fh).get("findings", [])


class Check:
    def __init__(self, prop, tier, program, tree_hash, seed=0):
        self.prop = prop
        self.tier = tier
        self.program = program
        self.tree_hash = tree_hash
        self.seed = seed
        self.t0 = time.time()
        self.rules = {}          # name -> {"text":..., "instances": int, "ok": int}
        self.instances = []      # dicts
        self.violations = []     # dicts
        self.notes = []
        self.assumptions = []
        self.explanation = ""
        self.extra = {}

    # ---- recording
    def rule(self, name, text):
        self.rules.setdefault(name, {"text": text, "instances": 0, "held": 0, "violated": 0})
        return name

    def ok(self, rule, key, what, loc=None, **detail):
        """an obligation that was evaluated and holds"""
        r = self.rules[rule]
        r["instances"] += 1
        r["held"] += 1
        self.instances.append({"rule": rule, "key": f"{self.prop}:{rule}:{key}", "holds": True, "what": what, "loc": loc, **detail})

    def bad(self, rule, key, what, loc=None, **detail):
        """an obligation that was evaluated and fails"""
        r = self.rules[rule]
        r["instances"] += 1
        r["violated"] += 1
        v = {"rule": rule, "key": f"{self.prop}:{rule}:{key}", "holds": False, "what": what, "loc": loc,
             "rule_text": r["text"], **detail}
        self.instances.append(v)
        self.violations.append(v)

    def judge(self, cond, rule, key, what_ok, what_bad=None, loc=None, **detail):
        if cond:
            self.ok(rule, key, what_ok, loc, **detail)
        else:
            self.bad(rule, key, what_bad or ("NOT: " + what_ok), loc, **detail)
        return cond

    def floor(self, rule, n, floor, what):
        """fail closed when a rule matches fewer instances than were confirmed by hand"""
        if n < floor:
            self.bad(rule, f"anchor-missing:{what}", f"anchor-missing: {what}: matched {n} instance(s), expected at least {floor}")
            return False
        return True

    def missing(self, rule, what):
        self.bad(rule, f"anchor-missing:{what}", f"anchor-missing: {what}")

    # ---- finishing
    def finish(self):
        known = [k for k in load_known() if k.get("property") == self.prop]
        open_keys = {k["key"]: k for k in known if k.get("status") == "open"}
        hits = []
        real = []
        for v in self.violations:
            if v["key"] in open_keys:
                hits.append((v, open_keys[v["key"]]))
            else:
                real.append(v)
        for v, k in hits:
            print(f"KNOWN-FINDING: property={self.prop} {k.get('what', v['what'])} [{v['key']}]")
        vdir = os.path.join(VERIF, "evidence", "violations")
        if real:
            os.makedirs(vdir, exist_ok=True)
        for i, v in enumerate(real):
            path = os.path.join(vdir, f"{self.prop}-{i}.json")
            with open(path, "w") as fh:
                json.dump(v, fh, indent=1, default=str)
            print(f"  {v['rule']}: {v['what']}  at {v.get('loc')}  key={v['key']}")
            print(f"VIOLATION property={self.prop} replay={path}")
        p = self.program
        nfn = sum(len(l) for l in p.fn_multi.values())
        nblocks = sum(len(f.blocks) for l in p.fn_multi.values() for f in l)
        keys = {i["key"] for i in self.instances}
        samples = []
        per_rule_seen = {}
        for i in self.instances:
            c = per_rule_seen.get(i["rule"], 0)
            if c < 3:
                samples.append({k: v for k, v in i.items() if k != "rule_text"})
                per_rule_seen[i["rule"]] = c + 1
        ev = {
            "property_id": self.prop,
            "tier": self.tier,
            "seed": self.seed,
            "level": "other",
            "coverage": {
                "explanation": self.explanation,
                "evaluations": len(self.instances),
                "distinct_nontrivial": len(keys),
                "rule": "one evaluation = one rule instance (an anchored construct in the MIR of /repo's current tree: a call site, store, loop exit, field, sibling pair ...) judged against its rule; distinct = distinct instance keys (property:rule:function:role, no line numbers)",
                "obligations": len(self.instances),
                "discharged": len(self.instances) - len(self.violations),
                "samples": samples,
                "rules": self.rules,
                "analysed": {
                    "tree_hash": self.tree_hash,
                    "repo": os.environ.get("EGV_REPO", "/repo"),
                    "crates": sorted({c for (c, _t) in p.meta}),
                    "functions": nfn,
                    "basic_blocks": nblocks,
                    "adts": len(p.adts),
                    "impls": len(p.impls),
                },
                "known_findings_hit": [v["key"] for v, _ in hits],
                "notes": self.notes,
                **self.extra,
            },
            "assumptions": self.assumptions,
            "wall_s": round(time.time() - self.t0, 3),
            "violations": len(real),
        }
        os.makedirs(os.path.join(VERIF, "evidence"), exist_ok=True)
        out = os.path.join(VERIF, "evidence", f"{self.prop}.json")
        if os.environ.get("EGV_NO_EVIDENCE") != "1":
            with open(out, "w") as fh:
                json.dump(ev, fh, indent=1, default=str)
        held = len(self.instances) - len(self.violations)
        print(f"[{self.prop}] tier={self.tier} rules={len(self.rules)} instances={len(self.instances)} held={held} "
              f"known={len(hits)} violations={len(real)} wall={ev['wall_s']}s")
        return 1 if real else 0
