"""Compile-fail witnesses (thorough tier): type-level encodings some rules rely on. Nothing is executed:
every doctest is `compile_fail,E…` or `no_run`."""
import os
import re
import shutil
import subprocess

from .extract import CACHE, VERIF, repo_path


def run_witnesses():
    """returns (list of (test name, ok), raw tail) or raises"""
    repo = repo_path()
    wdir = os.path.join(VERIF, "witness")
    with open(os.path.join(wdir, "Cargo.toml.in")) as fh:
        tmpl = fh.read()
    with open(os.path.join(wdir, "Cargo.toml"), "w") as fh:
        fh.write(tmpl.replace("@@REPO@@", repo))
    shutil.copy(os.path.join(repo, "Cargo.lock"), os.path.join(wdir, "Cargo.lock"))
    env = dict(os.environ, CARGO_TARGET_DIR=os.path.join(CACHE, "witness-target"), CARGO_NET_OFFLINE="true")
    env.pop("RUSTC_WORKSPACE_WRAPPER", None)
    env.pop("RUSTFLAGS", None)
    r = subprocess.run(["cargo", "+nightly", "test", "--doc", "--offline"], cwd=wdir, env=env,
                       stdout=subprocess.PIPE, stderr=subprocess.STDOUT, text=True)
    out = r.stdout
    res = []
    for m in re.finditer(r"^test src/lib\.rs - (\S+) \(line (\d+)\)( - compile fail| - compile)? \.\.\. (\w+)", out, re.M):
        kind = "compile_fail" if (m.group(3) or "").strip() == "- compile fail" else "compiles"
        res.append((f"{m.group(1)}:{kind}", m.group(4) == "ok"))
    return res, out[-1500:]
