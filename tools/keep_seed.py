#!/usr/bin/env python3
"""keep_seed.py <seed dir name under /verif/seeded> <property> <caught_by or ''> <confirmation text>
Merges the sub-agent's meta.json with what was confirmed here."""
import json, sys, os
d, prop, caught, ran = sys.argv[1:5]
p = os.path.join('/verif/seeded', d, 'meta.json')
m = json.load(open(p))
out = {
    "property": prop,
    "breaks": m.get("summary"),
    "needs_to_manifest": m.get("what_it_needs_to_manifest"),
    "files_touched": m.get("files_touched"),
    "demo": {"files": m.get("demo_files"), "cmd": m.get("demo_cmd"),
             "with_patch": m.get("demo_result_with_patch"), "without_patch": m.get("demo_result_without_patch")},
    "suite": {"cmd": m.get("suite_cmd"), "result": m.get("suite_result")},
    "confirmed_here": ran,
    "caught_by": caught or None,
    "origin": "fresh sub-agent given only the property text and its own scratch worktree",
}
json.dump(out, open(p, 'w'), indent=1)
print("ok", p)
