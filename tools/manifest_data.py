SOURCE_COMMITS = []  # no hook commits; fix: commits are listed in known_findings.json
NOTES = ("Technique family: static analysis only. Every check decides structural necessary conditions of its "
         "property from the MIR of /repo's current working tree (re-extracted whenever the tree hash changes); "
         "no egglog code is executed. What each check does and does not decide is stated in level_claimed.text "
         "and in DESIGN.md §3. Genuine defects found are recorded in known_findings.json (fixed: entries suppress nothing).")
TRUST = ("Trusted: rustc nightly MIR construction and trait resolution (the analysed MIR is nightly's lowering of the same "
         "source the pinned toolchain builds); the analysis library (CFG/dominators/control dependence/value origins), "
         "exercised by the mutant self-test in selftest/; the frozen instance tables (each entry confirmed by reading). "
         "Unwind paths are not part of 'every path' unless a rule says so.")
NOT_APPLICABLE = {
    "C11": "translation validation over generated programs: the property is about what the encoder's *output program* does when run; no structural clause of the encoder is a necessary condition that can be named without executing both sides (DESIGN.md §3 C11)",
    "C12": "proof-checker soundness/completeness quantifies over run-time proof objects and altered programs; the only shape-level fact (prove_exists calls the checker) is not a necessary condition of the property, so claiming it would be a proxy (DESIGN.md §3 C12)",
}
CLAIMS = {
    "C05": {
        "text": "Partial, structural: decides on MIR that at every call site of a table merge function (recognised by type) the path where the merge reports a change writes the merge OUTPUT buffer to row storage, stales the previous row and re-points the hash entry at the written row (sibling cross-check of serial_insert / parallel_insert / StagedOutputs::insert); that merge is called as (current,incoming); that the :no-merge arm reaches the panic function under cur != new; that \"old\"/\"new\" map to Old/New and Old/New return cur/new. Does NOT decide order-independence of the fold over all histories (algebra over data). This is the right level because the defect class (a collision path that drops the merged row: F1, fixed) is visible only in code shape, on a path the suite never enters.",
        "note": TRUST,
        "technique": "MIR value-flow + control-dependence rule, sibling cross-check of merge call sites",
    },
    "C01": {
        "text": "Partial, structural: decides on MIR (a) R-REBUILD: after Database::merge_all/run_rule_set/merge_table every path of every bridge function to a normal return (Ok or Err) calls a rebuilder or takes the equal side of a before/after comparison of the union-find table's size, with obligations propagated through pure propagators to their callers and public propagators rejected; (b) R-FIXPOINT: each rebuild loop (native apply_rebuild loop, serial and parallel while-changed loops) exits only when every change signal of the pass is false and advances the timestamp each pass; (c) R-MIN: the table/container merge functions return min(a,b) of the ids they union and UnionFind::union links max under min. Does NOT decide soundness/completeness of congruence closure over data. Found F3 (run_rules_inner returned a rule panic before rebuilding; fixed).",
        "note": TRUST + " Error exits inside the rebuilder itself are exempt. len(uf_table) unchanged across a merge is taken to mean no new union.",
        "technique": "MIR path rule (must-pass-through with obligation propagation), loop-exit edge analysis, value-origin min/max selection",
    },
    "C04": {
        "text": "Partial, structural: R-REBUILD of C01 over all normal exits including Err exits (where the property's 'failed command' clause lives), plus R-WHO-MERGES: outside egglog_core_relations only rebuilders, R-REBUILD-obligated functions and one listed wrapper may call the merging/rebuilding Database operations, crate egglog none, and no public bridge function hands out &mut Database; R-CANON-READS: add_term returns the id canonicalised after the flush. Does NOT decide key uniqueness, container hash-consing or serialisation agreement (data).",
        "note": TRUST,
        "technique": "MIR path rule over all exits + who-may-call over the resolved call graph",
    },
    "C07": {
        "text": "Partial, structural: decides on MIR that every extractor scan closure mutates extractor state / collects root variants only under row.subsumed == false; that functions enter the reverse index only under !unextractable, !internal_hidden and the constructor-or-view test; that a parent edge is recorded only under best-cost equality and a strict rank decrease (cycle guard); that integer Cost::combine saturates. Does NOT decide optimality or class membership of the extracted term.",
        "note": TRUST,
        "technique": "MIR control-dependence (guard) rules on effect sites, binop/callee inventory for Cost::combine",
    },
    "C10": {
        "text": "Partial, structural: decides on MIR that in run_schedule the Saturate loop exits only on updated == false of the recursive result, Repeat is a 0..limit range loop whose only other exit is can_stop == true, Sequence has no early exit and Run delegates to run_rules; that run_rules checks :until before stepping and does not step when it holds; that every sub-report is unioned into the returned report, RunReport::union ORs updated / ANDs can_stop, singleton derives both from IterationReport::changed() which is merge_all()'s result; that combined rulesets hold names and are expanded only by the step functions. Does NOT decide equality of databases under the algebraic schedule laws.",
        "note": TRUST,
        "technique": "MIR loop-exit edge classification, dominance/reachability, value-origin rules",
    },
    "C13": {
        "text": "Partial, structural: decides on MIR that the merge callback combines the current and new row's subsume flags with max (constants evaluated: SUBSUMED=1 > NOT_SUBSUMED=0), reports a flag-only change and writes the merged flag; that the merged row is what is stored at every merge site (R-MERGE-STORED, shared with C05; found F1 which also lost the flag on the parallel path, fixed); that rule bodies constrain the subsume column to NOT_SUBSUMED unless include_subsumed, with only check_facts passing a constant true; that rebuild rules hand the row's flag variable to rebuild_row/set_with_subsume and the native rebuilder's columns come from the schema only; that the subsume action writes SUBSUMED under insert_if_eq(cur, NOT_SUBSUMED); that extraction skips subsumed rows. Does NOT decide behaviour across all interleavings.",
        "note": TRUST,
        "technique": "MIR value-origin and control-dependence rules over every flag-carrying path, const evaluation facts",
    },
    "C17": {
        "text": "Partial, structural: decides on MIR the writer discipline behind 'representative = minimum id' and 'compression preserves the partition': UnionFind.parents is written only by reset/reserve (identity), union (slot max(find a, find b) := min(..)) and find (values loaded from parents); find returns only at a root; find_naive stores nothing; in the concurrent structure all mutations are CAS in merge/find_impl, merge CASes the max root from itself to the min root with fresh find_impl operands and retries on failure, find_impl only CASes in loaded values; bridge merge functions agree (R-MIN). Does NOT decide partition correctness over all sequences nor linearizability.",
        "note": TRUST,
        "technique": "who-may-write inventory + MIR value-origin min/max selection rules",
    },
    "C03": {
        "text": "Partial, structural: decides on MIR that the semi-naive delta decomposition built in Query::add_rules_from_cached has the only shape that loses no match and duplicates none (constraints are exactly GeConst/LtConst on mid_ts.to_value(); ts column and atom id come from the same atom; one GeConst focus per variant pushed after clear(); LtConst only over atoms[0..focus]); that run_rules_impl builds the variants from the old last_run_at before storing next_ts, that callers pass a next_ts() read with no inc_ts before the run, and that last_run_at has no other writers; that every row re-inserted by a table rebuild/refresh (5 sites) is stamped with next_ts in its sort column on the sort_by=Some path; that the timestamp advances after every merge before control returns. Does NOT decide equality of the semi-naive and naive databases for all programs.",
        "note": TRUST,
        "technique": "MIR value-origin pairing rules, dominance and path rules on the timestamp protocol",
    },
    "C08": {
        "text": "Partial, structural: decides from rustc type facts + MIR which interior-mutable state is physically shared between an e-graph and its clone / pushed snapshot: an inventory over the ADT field graph from egglog::EGraph (through generics and Box<dyn Trait> -> local impls) of every Arc/Rc/&/raw-pointer handle whose pointee is not Freeze (rustc's own query), classified shared/fresh from the owner's Clone body, must equal a frozen table with one reason per entry; manual Clone impls must build pending_state, buffered_writes and the index caches fresh; pop carries over exactly {overall_run_report, parser.symbol_gen}; ActionRegistry::lookup_table has only liveness-filtered or listed callers. Reports F5 (action_registry shared by Clone) and F6 (SchedulerRuleInfo.matches shared while CollectMatches deep-copies) as known findings, both reproduced against the real code. Does NOT decide output equality of P;push;Q;pop;R and P;R.",
        "note": TRUST + " The inventory rule can fire on a new, harmless shared handle: each entry is one named symbol with a reason (DESIGN.md §2.6).",
        "technique": "ownership/aliasing inventory over the type-checked ADT field graph (Freeze query) + Clone-body value-origin analysis + who-may-call",
    },
    "C18": {
        "text": "Partial, structural: decides on MIR the bookkeeping obligations of step_rules_with_scheduler: every field emptied with mem::take is restored on every normal return; the scheduler's query rule is built with include_subsumed=false; query run -> scheduler decision -> flush_updates -> action run form a dominance chain; instantiate's result is stored back as the residual, instantiate returns the original vector (or empty), sorts and dedups `chosen` before any swap/truncate and inserts chosen rows first; query_report.updated := false and action_report.can_stop = !updated && scheduler.can_stop(). F6 (C08) also breaks this property and is listed there. Does NOT decide fairness/confluence outcomes nor canonicity of residual raw values.",
        "note": TRUST,
        "technique": "MIR pairing (take/restore path rule), dominance chain, value-origin rules",
    },
    "C16": {
        "text": "Partial, structural: decides on MIR that observers (&self methods) of SortedWritesTable read raw row storage only under stale_rows == 0 (closures inherit the control dependence of the block building them) and that the Rows wrappers return Some only for non-stale rows; that Index::refresh clears exactly on a major-version change, bulk-rebuilds only after that clear, and records the version read at entry on every merging path; that merge_all/merge_simple record every notified batch in `touched` and reset both index caches of touched tables; that generation has a frozen writer set and every row compaction is dominated by a bump; that merge_table has no callers; that a key gets a new hash entry only after a lookup miss (R-INSERT-AFTER-PROBE, shared with C05); that for each Table impl clear() resets every field merge() writes (found F4: DisplacedTable::clear left lookup_table and pending writes; fixed). Does NOT decide model equivalence with a plain map over operation sequences. R-NOTIFY of DESIGN.md is not armed in this revision.",
        "note": TRUST,
        "technique": "MIR control-dependence (edge-dominance) read discipline, protocol dominance/path rules, field-reset coverage (effect sets), who-may-write/call inventories",
    },
    "C09": {
        "text": "Partial, structural: decides the validate-before-commit discipline of the pre-execution pipeline by an interprocedural effect analysis on MIR: in every function that can be entered with the engine's real state from EGraph::resolve_command (execution excluded; callees handed a local clone are excluded), a write to declaration state (TypeInfo tables, EGraph.functions/rulesets/commands, Names, EncodingState tables, Parser tables, backend registrations) - directly, or through a callee's effect summary - must not be followed by a reachable, uncompensated error exit (`?`, Err literal, or a callee's Err returned as a value). Infeasible pairs are pruned by an enum-variant correlation on match-arm results. Found F2 (typecheck_function committed the signature before validation; fixed) and reports 14 further instances of the same missing-rollback defect (batches, shadowing after typecheck, proof-support rejection, term-encoding re-typecheck) as known findings, each reproduced in the REPL. 'No input panics' is NOT claimed.",
        "note": TRUST + " A later write to the same field on the way to the exit counts as compensation without checking that it undoes the first; commit sites are mutating container calls (frozen MUTATORS list) and plain stores.",
        "technique": "interprocedural effect (commit) summaries + CFG reachability to error exits, with enum-variant path-feasibility pruning",
    },
    "C14": {
        "text": "Partial, structural: decides on MIR the ordering argument of the rebuild loop (rebuild_containers dominates apply_rebuild dominates refresh_rows_for_values, the refresh receives that pass's dirty ids, both passes use one next_ts read with no inc_ts before them, inc_ts afterwards); that rebuild_all always closes the dirty-id set over containing containers on the summary it returns; that the three container-rebuild variants each rebuild the own id, rebuild contents, merge on collision with to_container/val_index maintenance under result != old, record dirty ids only under an id-unchanged test and note changes; that all six ContainerValue impls rebuild their contents through the ValueRebuilder and return a computed flag; and R-MIN for the container merge closure. Does NOT decide equality of containers modulo unions on data.",
        "note": TRUST,
        "technique": "MIR dominance/value-origin rules, sibling cross-check of the three rebuild variants, trait-impl inventory",
    },
    "C15": {
        "text": "Partial, structural: decides 'the writer's and reader's tables agree' from the string constants in MIR (every option keyword and command head emitted by an AST printer is a string the parser tests; every option keyword the parser accepts is emitted by some AST printer or listed as sugar) and that the printer of each of the 12 AST node types reads every field of every variant except spans and one listed field (Sort.unionable, no surface syntax). Found two genuine round-trip defects: Variant printing dropped :unextractable (F7) and rewrite/birewrite printing dropped :name (F8); both fixed. Does NOT decide round-trip of concrete literals/strings (escaping, floats) nor evaluation of extracted terms.",
        "note": TRUST + " A field that is read by the printer is assumed to be printed faithfully.",
        "technique": "table agreement over MIR string constants + per-variant field-read coverage of the printers",
    },
    "C19": {
        "text": "Partial, structural: decides on MIR the ordering/pairing facts the concurrency code's safety comments rest on: expect_one dominates enqueue and the lifetime transmute has one caller; the job closure runs the user callback only under catch_unwind, records a panic on the Err arm and calls complete_one on every normal path; enqueue runs the job inline when the send fails; scope() runs the root callback under catch_unwind, always waits (complete_root_and_wait dominates every return/resume), re-raises a worker panic; complete_root_and_wait waits unless complete_one returned true; the done signal is sent only under completed == expected; MutexWriter is built only after the token CAS succeeded and readers were waited for, MutexReader only on the ReadOk arm, the UnsafeCell is dereferenced only by the guards/read(), the writer's drop publishes ReadOk before notifying; ConcurrentVec writes slots under the write lock before publishing head; ParallelVecWriter writes only after reserve_space. Does NOT decide deadlock freedom, lost wake-ups or linearizability.",
        "note": TRUST,
        "technique": "MIR dominance / must-pass-through / guard rules, who-may-call and who-may-construct inventories",
    },
    "C02": {
        "text": "Partial and modest, structural: decides only the path-shaped clause 'in the database as it stood when the iteration began': in Database::run_rule_set every search/apply step (run_plan / run_join_stages in both the serial and the scoped-parallel arm, the action-buffer flushes, the parallel scope) happens before the single merge_all and never after it, and from the join executor, the instruction interpreter and the action flushers no table-merging/clearing/rebuilding Database or Table operation is reachable in the resolved call graph (depth 8, dyn calls fanned out); the thorough tier adds a compile-fail witness that code holding only an ExecutionState cannot call Table::merge. Does NOT decide plan-independence (strategy, decomposition, stage order, constraint placement, indexes): no structural clause of the planner is a necessary condition I can state without re-implementing its invariants as a dynamic oracle.",
        "note": TRUST + " External functions are opaque but only receive &mut ExecutionState.",
        "technique": "must-precede rule on the CFG + call-graph unreachability + compile-fail witness",
    },
    "C06": {
        "text": "Partial, structural (sibling cross-check): decides on MIR that each parallel table operation writes the same fields as its serial sibling (insert, delete, rehash pairs of SortedWritesTable), that both report a computed `changed`, that one dispatcher chooses between them, that every rebuild body staging an insert also stages the removal of the old key, and that the per-site obligations shared with other properties hold at every serial and parallel site alike: merge output stored and probe-before-insert (C05), re-stamping (C03), physical scan extent (R-SCAN-EXTENT), the three container-rebuild variants (C14); and that the size cut-offs of parallel_heuristics are only ever used as branch conditions (R-CUTOFF-PURE). Found F1 (parallel_insert dropped the merged row; fixed). Does NOT decide isomorphism of results across thread counts and schedules; the index-refresh and run_rule_set serial/scoped pairs are not cross-checked.",
        "note": TRUST,
        "technique": "sibling cross-check: field-write effect sets + shared per-site MIR rules on every serial/parallel variant",
    },
    "C20": {
        "text": "Partial, structural: decides from MIR with resolved generic arguments that no source of run-to-run variation exists in library code that computes outputs: every iteration over a std/hashbrown/dashmap hash map or set uses the fixed-seed Fx hasher, or its items are collected and sorted before the function returns (30+ sites; indexmap and the raw HashTable are out of scope by stated assumption); calls to env/clock/randomness/thread-identity APIs are exactly a frozen 14-entry table and Instant values only flow into elapsed(); an exposed pointer address only flows back into a pointer and never into hashing, ordering or an id. Found F9 (ActionRegistry::table_sizes iterated a randomly seeded map: three processes, three orders; fixed). Does NOT decide equality of two executions.",
        "note": TRUST + " Inventory rule: a new harmless default-hashed iteration would be reported and needs a table entry with a reason.",
        "technique": "inventory over resolved generic arguments (hasher type at each iteration site) + frozen who-may-call table + forward taint of exposed addresses",
    },
}
