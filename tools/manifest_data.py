SOURCE_COMMITS = []  # no hook commits; fix: commits are listed in known_findings.json
NOTES = ("Technique family: static analysis only. Every check decides structural necessary conditions of its "
         "property from the MIR of /repo's current working tree (re-extracted whenever the tree hash changes); "
         "no egglog code is executed. What each check does and does not decide is stated in level_claimed.text "
         "and in DESIGN.md §3. Genuine defects found are recorded in known_findings.json (fixed: entries suppress nothing).")
TRUST = ("Trusted: rustc nightly MIR construction and trait resolution (the analysed MIR is nightly's lowering of the same "
         "source the pinned toolchain builds); the analysis library (CFG/dominators/control dependence/value origins), "
         "exercised by the mutant self-test in selftest/; the frozen instance tables (each entry confirmed by reading). "
         "Unwind paths are not part of 'every path' unless a rule says so.")
NOT_APPLICABLE = {
    "C11": "translation validation over generated programs: the property is about what the encoder's *output program* does when run; no structural clause of the encoder is a necessary condition that can be named without executing both sides (DESIGN.md §3 C11)",
    "C12": "proof-checker soundness/completeness quantifies over run-time proof objects and altered programs; the only shape-level fact (prove_exists calls the checker) is not a necessary condition of the property, so claiming it would be a proxy (DESIGN.md §3 C12)",
}
CLAIMS = {
    "C05": {
        "text": "Partial, structural: decides on MIR that at every call site of a table merge function (recognised by type) the path where the merge reports a change writes the merge OUTPUT buffer to row storage, stales the previous row and re-points the hash entry at the written row (sibling cross-check of serial_insert / parallel_insert / StagedOutputs::insert); that merge is called as (current,incoming); that the :no-merge arm reaches the panic function under cur != new; that \"old\"/\"new\" map to Old/New and Old/New return cur/new. Does NOT decide order-independence of the fold over all histories (algebra over data). This is the right level because the defect class (a collision path that drops the merged row: F1, fixed) is visible only in code shape, on a path the suite never enters.",
        "note": TRUST,
        "technique": "MIR value-flow + control-dependence rule, sibling cross-check of merge call sites",
    },
}
