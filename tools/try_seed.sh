#!/bin/bash
# usage: try_seed.sh <seed dir containing patch.diff> <prop> [<prop> ...]
# applies the patch to /repo, runs the given checks (no evidence written), and undoes it straight afterwards
d=$1; shift
cd /repo || exit 2
git apply --check "$d/patch.diff" || { echo "PATCH DOES NOT APPLY"; exit 2; }
git apply "$d/patch.diff"
for p in "$@"; do
  EGV_NO_EVIDENCE=1 /verif/check $p 2>&1 | tail -6
done
git -C /repo checkout -- .
git -C /repo status --short | head -3
