#!/usr/bin/env python3
"""Regenerates /verif/MANIFEST.json from tools/manifest_data.py (claims) and properties.jsonl."""
import json, os, sys
HERE = os.path.dirname(os.path.abspath(__file__))
VERIF = os.path.dirname(HERE)
sys.path.insert(0, HERE)
import manifest_data as md

props = [json.loads(l)["id"] for l in open(os.path.join(VERIF, "properties.jsonl"))]
checks = []
na = []
for p in props:
    if p in md.CLAIMS:
        c = md.CLAIMS[p]
        checks.append({
            "property_id": p,
            "quick_cmd": f"./check {p} --tier quick",
            "thorough_cmd": f"./check {p} --tier thorough",
            "evidence_file": f"/verif/evidence/{p}.json",
            "replay_cmd_template": f"./check {p} --explain {{path}}",
            "engine": "egv",
            "level_claimed": {"category": "other", "text": c["text"], "design_ref": c.get("design_ref", "DESIGN.md §3 " + p)},
            "level_note": c["note"],
            "technique": c["technique"],
        })
    else:
        na.append({"property_id": p, "reason": md.NOT_APPLICABLE.get(p, "check not yet built in this revision (work in progress)")})
m = {
    "version": 1,
    "setup_cmd": "./check setup",
    "hooks": {
        "guard": "egglog_verif",
        "enable": "none: static analysis reads /repo's sources as they are (no hooks, no instrumentation); the guard name is unused",
        "baseline_off_cmd": "cd /repo && cargo nextest run --workspace --no-fail-fast --offline --test-threads 8",
        "source_commits": md.SOURCE_COMMITS,
        "add_only": True,
    },
    "engines": [{
        "name": "egv", "path": "/verif/check",
        "serves_properties": [c["property_id"] for c in checks],
        "kind_free_text": "static analysis: rustc_private driver (driver/) dumps MIR, types and resolved callees of every workspace crate from /repo's current tree; Python rules (egv/rules) over CFG, dominators, control dependence, value origins and the call graph; instance tables in egv/tables; known findings in known_findings.json",
    }],
    "checks": checks,
    "notes": md.NOTES,
    "not_applicable": na,
}
json.dump(m, open(os.path.join(VERIF, "MANIFEST.json"), "w"), indent=1)
print(f"{len(checks)} checks, {len(na)} not applicable")
