//! Compile-fail witnesses (type-level encodings the checks rely on). Each `compile_fail,E…` block has a
//! compiling twin (`no_run`) that differs only in the offending line, so a witness whose path is merely
//! wrong cannot pass by accident. Run with `cargo +nightly test --doc` (error codes are only checked on nightly).

/// C19: a spawned task cannot borrow a local of the scope callback (the task may outlive that frame).
/// ```compile_fail,E0373
/// let pool = egglog_concurrency::ThreadPool::new(2);
/// let total = std::sync::atomic::AtomicUsize::new(0);
/// pool.scope(|s| {
///     let local = 5usize;
///     s.spawn(|_| { total.fetch_add(*&local, std::sync::atomic::Ordering::Relaxed); let _r = &local; });
/// });
/// ```
/// Twin: borrowing data that outlives the scope compiles.
/// ```no_run
/// let pool = egglog_concurrency::ThreadPool::new(2);
/// let total = std::sync::atomic::AtomicUsize::new(0);
/// let outer = 5usize;
/// pool.scope(|s| {
///     s.spawn(|_| { total.fetch_add(*&outer, std::sync::atomic::Ordering::Relaxed); let _r = &outer; });
/// });
/// ```
pub struct SpawnCannotBorrowScopeLocals;

/// C19: the `&Scope` handed to the callback cannot escape `ThreadPool::scope`.
/// ```compile_fail,E0521
/// let pool = egglog_concurrency::ThreadPool::new(2);
/// let mut leaked: Option<&egglog_concurrency::Scope<'_>> = None;
/// pool.scope(|s| { leaked = Some(s); });
/// ```
/// Twin: using the scope inside the callback compiles.
/// ```no_run
/// let pool = egglog_concurrency::ThreadPool::new(2);
/// let mut used = false;
/// pool.scope(|s| { let _inner: &egglog_concurrency::Scope<'_> = s; used = true; });
/// assert!(used);
/// ```
pub struct ScopeHandleCannotEscape;

/// C19: `ResettableOnceLock::reset` needs exclusive access; it does not type-check through a shared reference.
/// ```compile_fail,E0596
/// let lock = egglog_concurrency::ResettableOnceLock::new(1u32);
/// let shared = &lock;
/// shared.reset();
/// ```
/// Twin: with `&mut` it compiles.
/// ```no_run
/// let mut lock = egglog_concurrency::ResettableOnceLock::new(1u32);
/// let exclusive = &mut lock;
/// exclusive.reset();
/// ```
pub struct ResetNeedsExclusiveAccess;

/// C02: code running inside a rule (it only gets an `ExecutionState`) cannot merge or clear a table: the
/// tables it can reach are shared references.
/// ```compile_fail,E0596
/// fn inside_a_rule(es: &mut egglog_core_relations::ExecutionState<'_>, t: egglog_core_relations::TableId) {
///     let table = es.get_table(t);
///     let mut es2 = es.clone();
///     use egglog_core_relations::Table;
///     table.merge(&mut es2);
/// }
/// ```
/// Twin: reading the same table compiles.
/// ```no_run
/// fn inside_a_rule(es: &mut egglog_core_relations::ExecutionState<'_>, t: egglog_core_relations::TableId) -> usize {
///     let table = es.get_table(t);
///     let _es2 = es.clone();
///     use egglog_core_relations::Table;
///     table.len()
/// }
/// ```
pub struct RulesCannotMutateTables;
